/-
  Cobweb.Proofs.FlagsExact — the converse of `FlagInv`: between a run's `setup` and its `cleanup`, every tracker the
  command uses *is* flagged as reacting. (`FlagInv` says flags are set only there; `Used` says they are set there.)
  The proof needs `Pend`: the `start` of a tracker always finds an entry for the system, because every pending command
  that uses the tracker has a prepared entry.
-/
import Cobweb.Proofs.PendingD

namespace Cobweb

/-- A cleanup for kind `k` is the next thing that happens to the trackers. -/
def PendCleanup (s : St) (k : Kind) : Prop :=
  match s.stack with
  | .bodyActs _ k' _ _ :: _ => k' = k
  | .cleanup k' :: _ => k' = k
  | .exclActs _ _ :: _ => ∃ tl, s.wq = Cmd.cleanup k :: tl
  | .flush :: _ => ∃ tl, s.wq = Cmd.cleanup k :: tl
  | .batch (Cmd.cleanup k' :: _) :: _ => k' = k
  -- a runner started in-line by an exclusive body: its prelude (collector, poll) runs over the body's queued clean-up
  | .runnerStart _ _ :: _ => ∃ tl, s.wq = Cmd.cleanup k :: tl
  | .gc :: _ => ∃ tl, s.wq = Cmd.cleanup k :: tl
  | .despawnWork _ :: _ => ∃ tl, s.wq = Cmd.cleanup k :: tl
  | .poll :: _ => ∃ tl, s.wq = Cmd.cleanup k :: tl
  | _ => False

def flagOf : TrkId → St → Bool
  | .sys, s => s.trkSys.reacting
  | .evt, s => s.trkEvt.reacting
  | .ent, s => s.trkEnt.reacting
  | .dsp, s => s.trkDsp.reacting

/-- While a cleanup for `k` is pending, every tracker `k` uses is flagged. -/
def Used (s : St) : Prop := ∀ k T, PendCleanup s k → uses T k = true → flagOf T s = true

theorem flagOf_of_Fl {s s' : St} (h : Fl s' = Fl s) (T : TrkId) : flagOf T s' = flagOf T s := by
  simp only [Fl, Prod.mk.injEq] at h
  cases T <;> simp [flagOf, h.1, h.2.1, h.2.2.1, h.2.2.2]

/-- No cleanup is pending when the top frame may rest, is clean, and the world queue is empty. -/
theorem noPendCleanup_top {s : St} {g : Frame} {rest : List Frame} (hst : s.stack = g :: rest) (hc : g.clean)
    (hr : g.resting = true) (hw : s.wq = []) (k : Kind) : ¬ PendCleanup s k := by
  unfold PendCleanup; rw [hst]
  cases g <;> simp only [Frame.resting] at hr <;> try (intro h; exact h)
  case flush => rintro ⟨tl, h⟩; rw [hw] at h; cases h
  case exclActs => rintro ⟨tl, h⟩; rw [hw] at h; cases h
  case runnerStart => rintro ⟨tl, h⟩; rw [hw] at h; cases h
  case gc => rintro ⟨tl, h⟩; rw [hw] at h; cases h
  case despawnWork => rintro ⟨tl, h⟩; rw [hw] at h; cases h
  case poll => rintro ⟨tl, h⟩; rw [hw] at h; cases h
  case batch cs =>
    cases cs with
    | nil => intro h; exact h
    | cons c cs =>
      cases c <;> try (intro h; exact h)
      rename_i k'
      intro _
      have := hc (Cmd.cleanup k') (by simp)
      simp [isCleanup] at this
  all_goals cases hr

theorem noPendCleanup_nil {s : St} (hst : s.stack = []) (k : Kind) : ¬ PendCleanup s k := by
  unfold PendCleanup; rw [hst]; intro h; exact h

/-- Popping to a stack of resting clean frames with an empty world queue leaves no pending cleanup. -/
theorem used_of_allOK {s : St} (hall : allOK s.stack) (hw : s.wq = []) : Used s := by
  intro k T hp _
  exfalso
  cases hst : s.stack with
  | nil => exact noPendCleanup_nil hst k hp
  | cons g rest =>
    have := hall g (by rw [hst]; simp)
    exact noPendCleanup_top hst this.1 this.2 hw k hp

/-- A top frame that is none of the five shapes. -/
theorem used_of_top {s : St} {g : Frame} {rest : List Frame} (hst : s.stack = g :: rest)
    (hg : match g with
      | .bodyActs _ _ _ _ => False | .cleanup _ => False | .exclActs _ _ => False | .flush => False | .batch _ => False
      | .runnerStart _ _ => False | .gc => False | .despawnWork _ => False | .poll => False
      | _ => True) : Used s := by
  intro k T hp _
  exfalso
  unfold PendCleanup at hp; rw [hst] at hp
  cases g <;> first | exact hp | exact hg

/-- A frame of a runner's prelude (or the final flush) over a world queue without clean-up commands. -/
theorem used_of_top_clean {s : St} {g : Frame} {rest : List Frame} (hst : s.stack = g :: rest)
    (hg : match g with
      | .runnerStart _ _ => True | .gc => True | .despawnWork _ => True | .poll => True | .flush => True | .exclActs _ _ => True
      | _ => False) (hw : cleanList s.wq) : Used s := by
  intro k T hp _
  exfalso
  unfold PendCleanup at hp; rw [hst] at hp
  cases g <;> first
    | exact hg
    | (obtain ⟨tl, h⟩ := hp
       have := hw (Cmd.cleanup k) (by rw [h]; simp)
       simp [isCleanup] at this)

macro "wqnil" : tactic => `(tactic| (intro c hc; simp_all [St.push, St.emit, runFrame, doRunnerStart, doAfterBody, doGc, doDespawnWork]))

/-- Top frame `flush` over a world queue without cleanup commands. -/
theorem used_of_flush_clean {s : St} {rest : List Frame} (hst : s.stack = .flush :: rest) (hw : cleanList s.wq) : Used s := by
  intro k T hp _
  exfalso
  unfold PendCleanup at hp; rw [hst] at hp
  obtain ⟨tl, h⟩ := hp
  have := hw (Cmd.cleanup k) (by rw [h]; simp)
  simp [isCleanup] at this

theorem used_of_batch_clean {s : St} {cs : List Cmd} {rest : List Frame} (hst : s.stack = .batch cs :: rest) (hw : cleanList cs) :
    Used s := by
  intro k T hp _
  exfalso
  unfold PendCleanup at hp; rw [hst] at hp
  cases cs with
  | nil => exact hp
  | cons c cs =>
    cases c <;> try exact hp
    rename_i k'
    have := hw (Cmd.cleanup k') (by simp)
    simp [isCleanup] at this

end Cobweb

namespace Cobweb

theorem flagOf_eq_reactingOf (T : TrkId) (s : St) : flagOf T s = reactingOf T s := by cases T <;> rfl

/-- `setup` flags every tracker the kind uses, provided the tracker holds the command's own entry. -/
theorem setupK_sets (T : TrkId) (s : St) (k : Kind) (sys : Nat) (hu : uses T k = true)
    (hin : ∀ key, keyOf T k = some key → (sys, key) ∈ prepD T s) : flagOf T (setupK s k sys) = true := by
  rw [flagOf_eq_reactingOf]
  cases hk : keyOf T k with
  | none => rw [keyOf_none hk] at hu; cases hu
  | some key => exact (prepD_setupK_used T s k sys key hk (hin key hk)).2.2

/-- A pending command that uses tracker `T` has its own prepared entry there. -/
theorem prepD_mem_of_pending {s : St} (hp : PendD s) (T : TrkId) (sys : Nat) (k : Kind) (key : Key) (hk : keyOf T k = some key)
    (hin : (sys, k) ∈ allPending s) : (sys, key) ∈ prepD T s := by
  have := hp T
  apply this.mem_iff.mpr
  simp only [pendD, List.mem_filterMap]
  exact ⟨(sys, k), hin, by simp [hk]⟩

end Cobweb

namespace Cobweb

theorem cleanList_head_not_cleanup {cs tl : List Cmd} {k : Kind} (h : cleanList cs) (he : cs = Cmd.cleanup k :: tl) : False := by
  have := h (Cmd.cleanup k) (by rw [he]; simp)
  simp [isCleanup] at this

/-- Frames on which a pending clean-up is read off the head of the world queue. -/
def Frame.queueHead : Frame → Prop
  | .runnerStart _ _ => True | .gc => True | .despawnWork _ => True | .poll => True | .flush => True | .exclActs _ _ => True
  | _ => False

theorem pendCleanup_queueHead {s : St} {f : Frame} {rest : List Frame} (hs : s.stack = f :: rest) (hf : f.queueHead) (k : Kind) :
    PendCleanup s k ↔ ∃ tl, s.wq = Cmd.cleanup k :: tl := by
  unfold PendCleanup; rw [hs]
  cases f <;> first | exact Iff.rfl | exact absurd hf (by simp [Frame.queueHead])

/-- The same flags and the same world queue under another queue-head frame. -/
theorem used_same_top {s s' : St} {f g : Frame} {rest rest' : List Frame} (hu : Used s) (hs : s.stack = f :: rest) (hf : f.queueHead)
    (hst : s'.stack = g :: rest') (hg : g.queueHead) (hwq : s'.wq = s.wq) (hfl : ∀ T, flagOf T s' = flagOf T s) : Used s' := by
  intro k T hpc hus
  rw [hfl T]
  refine hu k T ?_ hus
  rw [pendCleanup_queueHead hs hf]
  rw [pendCleanup_queueHead hst hg, hwq] at hpc
  exact hpc

theorem leads_top {rest : List Frame} (h : Leads rest) : ∃ g r, rest = g :: r ∧ g.queueHead := by
  cases rest with
  | nil => exact absurd h (by simp [Leads])
  | cons g r => exact ⟨g, r, rfl, by cases g <;> simp [Leads] at h <;> trivial⟩

/-- **Between setup and cleanup the used trackers are flagged** — preserved by every frame. -/
theorem used_runFrame (p : Prog) (hh : Hist) {s : St} {f : Frame} {rest : List Frame} (hf : FlagInv s) (hp : PendD s)
    (hu : Used s) (hs : s.stack = f :: rest) : Used (runFrame p hh { s with stack := rest } f) := by
  have htop : TopOK s f := by have := hf.top; rw [hs] at this; exact this
  have hrest : allOK rest := by have := hf.below; rw [hs] at this; exact this
  -- popping to `rest` with an empty world queue
  have hpop : ∀ s' : St, s'.stack = rest → s'.wq = [] → Used s' := fun s' h1 h2 => used_of_allOK (by rw [h1]; exact hrest) h2
  cases f with
  | batch cs =>
    simp only [runFrame]
    cases cs with
    | nil =>
      simp only [doBatch]
      rcases htop with ⟨k, tl, hcs, _⟩ | ⟨_, _, hw⟩
      · cases hcs
      · exact hpop _ rfl hw
    | cons c cs =>
      simp only [doBatch]
      rcases htop with ⟨k, tl, hcs, htl, _, hw⟩ | ⟨_, hcl, hw⟩
      · simp only [List.cons.injEq] at hcs
        obtain ⟨rfl, rfl⟩ := hcs
        simp only [applyCmd]
        exact used_of_flush_clean (rest := Frame.batch cs :: rest) (by simp [St.push]) (by simp [St.push, hw]; exact cleanList_nil)
      · have hcc : isCleanup c = false := hcl c (by simp)
        obtain ⟨fs, hfs, hok⟩ := applyCmd_allOK (({ s with stack := rest } : St).push [.flush, .batch cs]) c hcc
        apply used_of_allOK
        · rw [hfs]
          refine allOK_append hok ?_
          simp only [St.push]
          exact allOK_append (allOK_flush_batch (fun x hx => hcl x (by simp [hx]))) hrest
        · simp [St.push, hw]
  | flush =>
    simp only [runFrame, doFlush]
    split
    · rename_i hemp
      exact hpop _ rfl (by simpa using hemp)
    · rcases htop with ⟨k, tl, hwq, _, _⟩ | ⟨_, hcl⟩
      · -- the queued cleanup of an exclusive system moves to the head of a batch
        intro k' T hpc hus
        have hk : k' = k := by
          unfold PendCleanup at hpc
          simp only [St.push, List.cons_append, List.nil_append] at hpc
          have hwq' : ({ s with stack := rest } : St).wq = Cmd.cleanup k :: tl := hwq
          rw [hwq'] at hpc
          exact hpc.symm
        subst hk
        have := hu k' T (by unfold PendCleanup; rw [hs]; exact ⟨tl, hwq⟩) hus
        cases T <;> exact this
      · exact used_of_batch_clean (cs := s.wq) (rest := rest) rfl hcl
  | bodyActs sys k i acc =>
    obtain ⟨_, _, hw⟩ := htop
    have hold : ∀ T, uses T k = true → flagOf T s = true := fun T h => hu k T (by unfold PendCleanup; rw [hs]) h
    simp only [runFrame, doBodyActs]
    split
    · intro k' T hpc hus
      have hk : k' = k := by unfold PendCleanup at hpc; simp only [St.push, St.emit, List.cons_append] at hpc; exact hpc.symm
      subst hk
      have := hold T hus
      cases T <;> exact this
    · rename_i a _
      intro k' T hpc hus
      have hk : k' = k := by unfold PendCleanup at hpc; simp only [St.push, List.cons_append] at hpc; exact hpc.symm
      subst hk
      have := hold T hus
      have hfl := flagOf_of_Fl (Fl_enqueue ({ s with stack := rest } : St) a) T
      rw [show flagOf T ((enqueue ({ s with stack := rest } : St) a).1.push _) = flagOf T (enqueue ({ s with stack := rest } : St) a).1 by cases T <;> rfl, hfl]
      cases T <;> exact this
  | exclActs sys i =>
    simp only [runFrame, doExclActs]
    split
    · exact used_same_top hu hs trivial (g := .flush) (rest' := rest) (by simp [St.push, St.emit]) trivial (by simp [St.push, St.emit])
        (fun T => by cases T <;> rfl)
    · rename_i t _
      exact used_same_top hu hs trivial (g := .runnerStart t .plain) (rest' := .exclActs sys (i + 1) :: rest) (by simp [St.push]) trivial
        (by simp [St.push]) (fun T => by cases T <;> rfl)
    · rename_i a _ _
      -- the body queues more commands behind whatever heads the queue
      have hfl : ∀ T, flagOf T (enqueue ({ s with stack := rest } : St) a).1 = flagOf T s := fun T => by
        rw [flagOf_of_Fl (Fl_enqueue ({ s with stack := rest } : St) a) T]; cases T <;> rfl
      have key : ∀ (fs : List Frame) (g : Frame) (r' : List Frame), fs ++ rest = g :: r' → g.queueHead →
          Used (({ (enqueue ({ s with stack := rest } : St) a).1 with
            wq := (enqueue ({ s with stack := rest } : St) a).1.wq ++ (enqueue ({ s with stack := rest } : St) a).2 } : St).push fs) := by
        intro fs g r' hfs hg k T hpc hus
        have hst' : (({ (enqueue ({ s with stack := rest } : St) a).1 with
            wq := (enqueue ({ s with stack := rest } : St) a).1.wq ++ (enqueue ({ s with stack := rest } : St) a).2 } : St).push fs).stack = g :: r' := by
          simp [St.push, hfs]
        rw [pendCleanup_queueHead hst' hg] at hpc
        obtain ⟨tl', h'⟩ := hpc
        simp only [St.push, enqueue_wq] at h'
        have hflT : flagOf T (({ (enqueue ({ s with stack := rest } : St) a).1 with
            wq := (enqueue ({ s with stack := rest } : St) a).1.wq ++ (enqueue ({ s with stack := rest } : St) a).2 } : St).push fs) = flagOf T s := by
          rw [← hfl T]; cases T <;> rfl
        rw [hflT]
        refine hu k T ?_ hus
        rw [pendCleanup_queueHead hs trivial]
        rcases htop with ⟨k0, tl0, hwq0, _, _⟩ | ⟨_, hcl⟩
        · have hwq0' : ({ s with stack := rest } : St).wq = Cmd.cleanup k0 :: tl0 := hwq0
          rw [hwq0'] at h'
          simp only [List.cons_append, List.cons.injEq, Cmd.cleanup.injEq] at h'
          exact ⟨tl0, by rw [← h'.1]; exact hwq0⟩
        · exfalso
          have hcl' : cleanList (({ s with stack := rest } : St).wq ++ (enqueue ({ s with stack := rest } : St) a).2) :=
            cleanList_append hcl (enqueue_clean _ a)
          have := hcl' (Cmd.cleanup k) (by rw [h']; simp)
          simp [isCleanup] at this
      split
      · exact key [.flush, .exclActs sys (i + 1)] .flush (.exclActs sys (i + 1) :: rest) (by simp) trivial
      · exact key [.exclActs sys (i + 1)] (.exclActs sys (i + 1)) rest (by simp) trivial
  | topActs t i =>
    obtain ⟨_, hcl⟩ := htop
    simp only [runFrame, doTopActs]
    split
    · exact used_of_flush_clean (rest := rest) rfl hcl
    · exact used_of_top (g := .topActs t (i + 1)) (rest := rest) (by simp [St.push]) trivial
  | cleanup k =>
    obtain ⟨_, hw⟩ := htop
    exact hpop _ (by simp [runFrame]) (by simp [runFrame]; exact hw)
  | onceTail sys =>
    obtain ⟨_, hw⟩ := htop
    refine used_of_flush_clean (rest := Frame.dropCallback sys :: rest) (by simp [runFrame, doOnceTail, St.push]) ?_
    simp only [runFrame, doOnceTail, St.push]
    intro c hc
    have hw' : (despawn1 ({ s with stack := rest } : St) sys).wq = [] := by simp; exact hw
    simp only [hw', List.nil_append, List.mem_singleton] at hc
    subst hc; rfl
  | dropCallback sys =>
    obtain ⟨_, hw⟩ := htop
    exact hpop _ (by simp [runFrame]) (by simp [runFrame]; exact hw)
  | runnerStart sys k =>
    exact used_same_top hu hs trivial (g := .gc) (rest' := .poll :: .runnerLookup sys k s.counter :: rest)
      (by simp [runFrame, doRunnerStart, St.push]) trivial (by simp [runFrame, doRunnerStart, St.push, St.emit]) (fun T => by cases T <;> rfl)
  | runnerLookup sys k idx =>
    obtain ⟨hidle, hw⟩ := htop
    simp only [runFrame, doRunnerLookup]
    have habort : ∀ ev : Ev, Used ((({ s with stack := rest } : St).emit ev).push (abortFrames sys k)) := fun ev =>
      used_of_top (g := .abort sys k) (rest := .gc :: .poll :: rest) (by simp [St.push, St.emit, abortFrames]) trivial
    split
    · exact habort _
    · split
      · exact habort _
      · split
        · exact habort _
        · exact hpop _ (by simp [St.emit]) (by simp [St.emit]; exact hw)
      · -- the callback is taken
        have hin : ∀ T key, keyOf T k = some key → (sys, key) ∈ prepD T s := fun T key h =>
          prepD_mem_of_pending hp T sys k key h (by simp [allPending, hs, stackPending_cons, framePending])
        have hset : ∀ T, uses T k = true →
            flagOf T (setupK ({ s with stack := rest, storage := upd s.storage sys (some false), counter := s.counter + 1 } : St) k sys) = true :=
          fun T h => setupK_sets T _ k sys h (fun key hk => by have := hin T key hk; cases T <;> exact this)
        have hsb : ∀ T, flagOf T (startBody ({ s with stack := rest, storage := upd s.storage sys (some false), counter := s.counter + 1 } : St) sys k) =
            flagOf T (setupK ({ s with stack := rest, storage := upd s.storage sys (some false), counter := s.counter + 1 } : St) k sys) :=
          fun T => flagOf_of_Fl (Fl_startBody _ sys k) T
        split
        · exact used_of_top (g := .afterBody sys idx) (rest := rest) (by simp [St.push, St.emit]) trivial
        · split
          · intro k' T hpc hus
            have hk : k' = k := by unfold PendCleanup at hpc; simp only [St.push, List.cons_append] at hpc; exact hpc.symm
            subst hk
            have := (hsb T).trans (hset T hus)
            cases T <;> exact this
          · split
            · intro k' T hpc hus
              have hk : k' = k := by
                unfold PendCleanup at hpc
                simp only [St.push, List.cons_append, List.nil_append] at hpc
                obtain ⟨tl', h'⟩ := hpc
                have hwq' : (startBody ({ s with stack := rest, storage := upd s.storage sys (some false), counter := s.counter + 1 } : St) sys k).wq = [] := by
                  simp; exact hw
                rw [hwq'] at h'
                simp only [List.nil_append, List.cons.injEq, Cmd.cleanup.injEq] at h'
                exact h'.1.symm
              subst hk
              have := (hsb T).trans (hset T hus)
              cases T <;> exact this
            · intro k' T hpc hus
              have hk : k' = k := by unfold PendCleanup at hpc; simp only [St.push, List.cons_append] at hpc; exact hpc.symm
              subst hk
              have := (hsb T).trans (hset T hus)
              cases T <;> exact this
  | afterBody sys idx =>
    obtain ⟨_, hw⟩ := htop
    exact used_of_top_clean (g := .gc) (rest := .reinsert sys idx :: rest) (by simp [runFrame, doAfterBody, St.push]) trivial (by wqnil)
  | reinsert sys idx =>
    obtain ⟨_, hw⟩ := htop
    simp only [runFrame, doReinsert]
    split
    · exact used_of_top_clean (g := .poll) (rest := .replayTake sys idx :: rest) (by simp [St.push, St.emit]) trivial (by wqnil)
    · split <;> exact used_of_top_clean (g := .despawnWork [(sys, false)]) (rest := .gc :: .poll :: .replayTake sys idx :: rest)
        (by simp [St.push, St.emit]) trivial (by wqnil)
    · split <;> exact used_of_top_clean (g := .gc) (rest := .poll :: .replayTake sys idx :: rest) (by simp [St.push, St.emit]) trivial (by wqnil)
  | replayTake sys idx =>
    exact used_of_top (g := .replayLoop sys s.buffered [] idx) (rest := rest) (by simp [runFrame, doReplayTake, St.push]) trivial
  | replayLoop sys r kept idx =>
    obtain ⟨_, hw⟩ := htop
    simp only [runFrame, doReplayLoop]
    split
    · exact used_of_top (g := .finish sys idx) (rest := rest) (by simp [St.push]) trivial
    · rename_i b bs
      split
      · exact used_of_top_clean (g := .runnerStart b.1 b.2) (rest := .replayLoop sys bs kept idx :: rest) (by simp [St.push, St.emit]) trivial (by wqnil)
      · exact used_of_top (g := .replayLoop sys bs (kept ++ [b]) idx) (rest := rest) (by simp [St.push]) trivial
  | finish sys idx =>
    obtain ⟨_, hw⟩ := htop
    simp only [runFrame, doFinish]
    split
    · split
      · exact hpop _ (by simp [St.emit]) (by simp [St.emit]; exact hw)
      · rename_i b bs _
        exact used_of_top (g := .abort b.1 b.2) (rest := .gc :: .poll :: .finish sys idx :: rest)
          (by simp [St.push, St.emit, abortFrames]) trivial
    · exact hpop _ (by simp [St.emit]) (by simp [St.emit]; exact hw)
  | abort sys k =>
    obtain ⟨_, hw⟩ := htop
    exact hpop _ (by simp [runFrame]) (by simp [runFrame]; exact hw)
  | gc =>
    have hlead : Lead1 s .gc rest := by have := hf.lead; rw [hs] at this; exact this
    simp only [runFrame, doGc]
    split
    · rcases hlead with ⟨_, hw⟩ | hl
      · exact hpop _ rfl hw
      · obtain ⟨g, r, hr, hg⟩ := leads_top hl
        exact used_same_top hu hs trivial (g := g) (rest' := r) (by simpa using hr) hg rfl (fun T => by cases T <;> rfl)
    · exact used_same_top hu hs trivial (g := .despawnWork _) (rest' := .gc :: rest) rfl trivial (by simp [St.push]) (fun T => by cases T <;> rfl)
  | despawnWork work =>
    have hlead : Lead1 s (.despawnWork work) rest := by have := hf.lead; rw [hs] at this; exact this
    simp only [runFrame, doDespawnWork]
    split
    · rcases hlead with ⟨_, hw⟩ | hl
      · exact hpop _ rfl hw
      · obtain ⟨g, r, hr, hg⟩ := leads_top hl
        exact used_same_top hu hs trivial (g := g) (rest' := r) (by simpa using hr) hg rfl (fun T => by cases T <;> rfl)
    · split
      · rename_i e ex work _
        split
        · exact used_same_top hu hs trivial (g := .despawnWork work) (rest' := rest) (by simp [St.push]) trivial (by simp [St.push])
            (fun T => by cases T <;> simp [flagOf, St.push])
        · exact used_same_top hu hs trivial (g := .flush) (rest' := .despawnWork _ :: rest) rfl trivial (by simp [St.push]) (fun T => by cases T <;> rfl)
      · split
        · exact used_same_top hu hs trivial (g := .despawnWork _) (rest' := rest) rfl trivial (by simp [St.push]) (fun T => by cases T <;> rfl)
        · exact used_same_top hu hs trivial (g := .despawnWork _) (rest' := rest) rfl trivial (by simp [St.push]) (fun T => by cases T <;> rfl)
  | poll =>
    -- the poll appends the reactions it schedules behind whatever heads the queue
    intro k T hpc hus
    have hst' : (runFrame p hh { s with stack := rest } .poll).stack = .flush :: rest := by simp [runFrame, doPoll, St.push]
    rw [pendCleanup_queueHead hst' trivial] at hpc
    obtain ⟨tl', h'⟩ := hpc
    simp only [runFrame, doPoll, St.push, pollDespawns_wq, pollRemovals_wq] at h'
    have hflT : flagOf T (runFrame p hh { s with stack := rest } .poll) = flagOf T s := by
      cases T <;> simp [runFrame, doPoll, flagOf, St.push]
    rw [hflT]
    refine hu k T ?_ hus
    rw [pendCleanup_queueHead hs trivial]
    have hnew : cleanList ((pollRemovals ({ s with stack := rest } : St)).2 ++ (pollDespawns (pollRemovals ({ s with stack := rest } : St)).1).2) :=
      cleanList_append (pollRemovals_clean _) (pollDespawns_clean _)
    rcases htop with ⟨k0, tl0, hwq0, _, _⟩ | ⟨_, hcl⟩
    · have hwq0' : ({ s with stack := rest } : St).wq = Cmd.cleanup k0 :: tl0 := hwq0
      rw [hwq0'] at h'
      simp only [List.cons_append, List.cons.injEq, Cmd.cleanup.injEq] at h'
      exact ⟨tl0, by rw [← h'.1]; exact hwq0⟩
    · exfalso
      have hcl' : cleanList (({ s with stack := rest } : St).wq ++ (pollRemovals ({ s with stack := rest } : St)).2 ++
          (pollDespawns (pollRemovals ({ s with stack := rest } : St)).1).2) := by
        rw [List.append_assoc]; exact cleanList_append hcl hnew
      have := hcl' (Cmd.cleanup k) (by rw [h']; simp)
      simp [isCleanup] at this

end Cobweb

namespace Cobweb

theorem used_startTop {s : St} (hst : s.stack = []) (hw : s.wq = []) (t : Nat) (op : TopOp) : Used (startTop s t op) := by
  have happly : ∀ (s1 : St) (c : Cmd), s1.stack = [] → s1.wq = [] → isCleanup c = false → Used (applyCmd s1 c) := by
    intro s1 c h1 h2 hc
    obtain ⟨fs, hfs, hok⟩ := applyCmd_allOK s1 c hc
    apply used_of_allOK
    · rw [hfs, h1, List.append_nil]; exact hok
    · simp [h2]
  unfold startTop
  cases op <;> dsimp only
  case acts => exact used_of_top (g := .topActs t 0) (rest := []) (by simp [St.push, St.emit, hst]) trivial
  case wDespawn e => exact used_of_allOK (by simp [St.emit, hst]; exact allOK_nil) (by simp [St.emit, hw])
  case wDespawnRec e => exact used_of_top_clean (g := .despawnWork [(e, false)]) (rest := []) (by simp [St.push, St.emit, hst]) trivial (by wqnil)
  case wRemove e ty => exact happly _ _ (by simp [St.emit, hst]) (by simp [St.emit, hw]) rfl
  case wInsertRaw e ty v => exact happly _ _ (by simp [St.emit, hst]) (by simp [St.emit, hw]) rfl
  case wSetParent c p =>
    split
    · exact used_of_allOK (by simp [St.emit, hst]; exact allOK_nil) (by simp [St.emit, hw])
    · exact used_of_allOK (by simp [St.emit, hst]; exact allOK_nil) (by simp [St.emit, hw])
  case gc => exact used_of_top_clean (g := .gc) (rest := []) (by simp [St.push, St.emit, hst]) trivial (by wqnil)
  case poll => exact used_of_top_clean (g := .poll) (rest := []) (by simp [St.push, St.emit, hst]) trivial (by wqnil)
  case frameEnd => exact used_of_top_clean (g := .gc) (rest := [.poll]) (by simp [St.push, St.emit, hst]) trivial (by wqnil)
  case clearTrackers => exact used_of_allOK (by simp [St.emit, hst]; exact allOK_nil) (by simp [St.emit, hw])
  case wSysEvent sys ty pid => exact happly _ _ (by simp [St.emit, St.fresh, hst]) (by simp [St.emit, St.fresh, hw]) rfl
  case wBroadcast ty pid => exact happly _ _ (by simp [St.emit, hst]) (by simp [St.emit, hw]) rfl
  case wEntityEvent e ty pid => exact happly _ _ (by simp [St.emit, hst]) (by simp [St.emit, hw]) rfl
  case sigPrepare e => exact used_of_allOK (by simp [St.emit, newArc, hst]; exact allOK_nil) (by simp [St.emit, newArc, hw])
  case sigClone a =>
    split
    · exact used_of_allOK (by simp [St.emit, hst]; exact allOK_nil) (by simp [St.emit, hw])
    · exact used_of_allOK (by simp [St.emit, hst]; exact allOK_nil) (by simp [St.emit, hw])
  case sigDrop a =>
    split
    · exact used_of_allOK (by simp [St.emit, hst]; exact allOK_nil) (by simp [St.emit, hw])
    · exact used_of_allOK (by simp [St.emit, hst]; exact allOK_nil) (by simp [St.emit, hw])
  case sigThreads a n => exact used_of_top_clean (g := .gc) (rest := []) (by simp [St.push, St.emit, hst]) trivial (by wqnil)

theorem used_tick (p : Prog) (hh : Hist) {s s' : St} (hf : FlagInv s) (hp : PendD s) (hu : Used s)
    (ht : tick p hh s = some s') : Used s' := by
  unfold tick at ht
  split at ht
  · rename_i s'' hs
    simp only [Option.some.injEq] at ht; subst ht
    unfold step at hs
    cases hst : s.stack with
    | nil => rw [hst] at hs; cases hs
    | cons f rest =>
      rw [hst] at hs
      simp only [Option.some.injEq] at hs; subst hs
      exact used_runFrame p hh hf hp hu hst
  · rename_i hnone
    split at ht
    · rename_i op _
      simp only [Option.some.injEq] at ht; subst ht
      have hst : s.stack = [] := by
        unfold step at hnone
        cases h : s.stack with
        | nil => rfl
        | cons f rest => rw [h] at hnone; cases hnone
      have htop := hf.top; rw [hst] at htop
      exact used_startTop (s := { s with topIdx := s.topIdx + 1 }) hst htop.2 s.topIdx op
    · cases ht

theorem used_default : Used ({} : St) := by intro k T h; exact absurd h (by unfold PendCleanup; exact fun h => h)

/-- The five control invariants along every execution. -/
structure Inv5 (s : St) : Prop where
  ctl : Ctl s
  once : OnceInv s
  flag : FlagInv s
  pendD : PendD s
  used : Used s

/-- The system-level pending invariant. -/
theorem Inv5.pend {s : St} (h : Inv5 s) : Pend s := pend_of_pendD h.pendD

theorem inv5_tick (p : Prog) (hh : Hist) {s s' : St} (h : Inv5 s) (ht : tick p hh s = some s') : Inv5 s' :=
  ⟨ctl_tick p hh h.ctl ht, once_tick p hh h.ctl h.once ht, flag_tick p hh h.ctl h.once h.flag ht, pendD_tick p hh h.pendD ht,
   used_tick p hh h.flag h.pendD h.used ht⟩

theorem inv5_default : Inv5 ({} : St) := ⟨ctl_default, once_default, flag_default, pendD_default, used_default⟩

theorem inv5_reach (p : Prog) (hh : Hist) {s0 s : St} (h0 : Inv5 s0) (hr : Reach p hh s0 s) : Inv5 s := by
  induction hr with
  | refl => exact h0
  | tick _ ht ih => exact inv5_tick p hh ih ht

end Cobweb
