/-
  Cobweb.Proofs.ScenarioInit — the executions the driver runs: for every scenario, the initial state is a booted world
  (`boot`), its history only clones / drops signals the user holds, hence every invariant holds in every state the driver
  passes through.
-/
import Cobweb.Scenario
import Cobweb.Proofs.Boot

namespace Cobweb

theorem infoNew_upd {info : Nat → SysInfo} (hi : InfoNew info) (e d : Nat) (excl : Bool) :
    InfoNew (upd info e { defn := d, excl := excl }) := by
  intro x
  by_cases h : x = e
  · simp [upd, h]
  · simpa [upd, h] using hi x

/-- Spawning one more world reactor system in a booted world gives a booted world. -/
theorem boot_addSys (n : Nat) (info : Nat → SysInfo) (names : List Nat) (wr ewr : Nat → Nat) (d : Nat) (excl isEwr : Bool) (k : Nat) :
    let s := (boot n info names wr ewr).fresh.2
    let s1 : St := { s with sysNames := s.sysNames ++ [n], info := upd s.info n { defn := d, excl := excl },
                            storage := upd s.storage n (some true) }
    (if isEwr then { s1 with ewrSys := upd s1.ewrSys k n } else { s1 with wrSys := upd s1.wrSys k n }) =
      boot (n + 1) (upd info n { defn := d, excl := excl }) (names ++ [n]) (if isEwr then wr else upd wr k n) (if isEwr then upd ewr k n else ewr) := by
  have ha : upd (fun e => decide (e < n)) n true = fun e => decide (e < n + 1) := by
    funext e
    simp only [upd]
    by_cases h : e = n
    · simp [h]
    · simp [h]; omega
  have hs : upd (fun e => if e < n then some true else (none : Option Bool)) n (some true) = fun e => if e < n + 1 then some true else (none : Option Bool) := by
    funext e
    simp only [upd]
    by_cases h : e = n
    · simp [h]
    · by_cases h2 : e < n
      · have : e < n + 1 := by omega
        simp [h, h2, this]
      · have : ¬ e < n + 1 := by omega
        simp [h, h2, this]
  cases isEwr <;> simp [boot, St.fresh, ha, hs]

end Cobweb

namespace Cobweb

theorem addSys_boot (sc : Scenario) (isEwr : Bool) (n : Nat) (info : Nat → SysInfo) (names : List Nat) (wr ewr : Nat → Nat) (k d : Nat) :
    ∃ info' names' wr' ewr', sc.addSys isEwr (boot n info names wr ewr, k) d = (boot (n + 1) info' names' wr' ewr', k + 1) ∧
      (InfoNew info → InfoNew info') := by
  refine ⟨upd info n { defn := d, excl := ((sc.defs[d]?).map (·.excl)).getD false }, names ++ [n],
    if isEwr then wr else upd wr k n, if isEwr then upd ewr k n else ewr, ?_, fun hi => infoNew_upd hi n d _⟩
  have := boot_addSys n info names wr ewr d (((sc.defs[d]?).map (·.excl)).getD false) isEwr k
  simp only [Scenario.addSys]
  exact Prod.ext this rfl

theorem fold_boot (sc : Scenario) (isEwr : Bool) (ds : List Nat) :
    ∀ (n : Nat) (info : Nat → SysInfo) (names : List Nat) (wr ewr : Nat → Nat) (k : Nat), InfoNew info →
      ∃ n' info' names' wr' ewr' k', ds.foldl (sc.addSys isEwr) (boot n info names wr ewr, k) = (boot n' info' names' wr' ewr', k') ∧
        InfoNew info' := by
  induction ds with
  | nil => intro n info names wr ewr k hi; exact ⟨n, info, names, wr, ewr, k, rfl, hi⟩
  | cons d ds ih =>
    intro n info names wr ewr k hi
    obtain ⟨info1, names1, wr1, ewr1, e1, h1⟩ := addSys_boot sc isEwr n info names wr ewr k d
    rw [List.foldl_cons, e1]
    exact ih (n + 1) info1 names1 wr1 ewr1 (k + 1) (h1 hi)

/-- **The initial state of every scenario is a booted world.** -/
theorem init_boot (sc : Scenario) : ∃ n info names wr ewr, sc.init = boot n info names wr ewr ∧ InfoNew info := by
  have h0 : ({ wrSys := fun _ => 4000000000, ewrSys := fun _ => 4000000000 } : St) =
      boot 0 (fun _ => {}) [] (fun _ => 4000000000) (fun _ => 4000000000) := by
    simp [boot]
  have hi0 : InfoNew (fun _ => ({} : SysInfo)) := fun _ => ⟨rfl, rfl, rfl⟩
  obtain ⟨n1, i1, l1, w1, x1, k1, e1, hi1⟩ := fold_boot sc false sc.wrs 0 (fun _ => {}) [] (fun _ => 4000000000) (fun _ => 4000000000) 0 hi0
  obtain ⟨n2, i2, l2, w2, x2, k2, e2, hi2⟩ := fold_boot sc true sc.ewrs n1 i1 l1 w1 x1 0 hi1
  refine ⟨n2, i2, l2, w2, x2, ?_, hi2⟩
  simp only [Scenario.init, h0, e1, e2]

theorem resolveTop_sig (s : St) (st : STop) (a : Nat)
    (h : resolveTop s st = some (.sigDrop a) ∨ resolveTop s st = some (.sigClone a)) : a ∈ s.sigs := by
  cases st <;> simp only [resolveTop] at h
  case sigClone i =>
    cases hi : s.sigs[i]? with
    | none => simp [hi] at h
    | some arc => simp [hi] at h; exact h ▸ List.mem_of_getElem? hi
  case sigDrop i =>
    cases hi : s.sigs[i]? with
    | none => simp [hi] at h
    | some arc => simp [hi] at h; exact h ▸ List.mem_of_getElem? hi
  case wSetParent c p =>
    cases hc : resolveRef s c <;> cases hp : resolveRef s p <;> simp [hc, hp] at h
  case sigThreads i n =>
    cases hi : s.sigs[i]? with
    | none => simp [hi] at h
    | some arc => simp [hi] at h
  all_goals first
    | (rcases h with h | h <;> simp at h)
    | (rename_i r; cases hr : resolveRef s r <;> simp [hr] at h)
    | (rename_i r _; cases hr : resolveRef s r <;> simp [hr] at h)
    | (rename_i r _ _; cases hr : resolveRef s r <;> simp [hr] at h)

/-- A scenario's history clones and drops only signals the scenario holds. -/
theorem hist_sigOK2 (sc : Scenario) : SigOK2 sc.hist := by
  intro t s a h
  simp only [Scenario.hist] at h
  cases htop : sc.tops[t]? with
  | none => simp [htop] at h
  | some st =>
    simp only [htop] at h
    apply resolveTop_sig s st a
    cases hr : resolveTop s st with
    | none => simp [hr] at h
    | some op => simpa [hr] using h

/-- The initial state of every scenario satisfies every invariant. -/
theorem scenario_start (sc : Scenario) : AllInv sc.init := by
  obtain ⟨n, info, names, wr, ewr, e, hi⟩ := init_boot sc
  rw [e]; exact all_boot n info names wr ewr hi

/-- **Every state the driver passes through satisfies every invariant.** For every scenario: along every execution of
    the scenario's program and history from the scenario's initial state (world reactors spawned), all whole-execution
    invariants hold. -/
theorem scenario_invariants (sc : Scenario) {s : St} (hr : Reach sc.prog sc.hist sc.init s) : AllInv s :=
  all_reach_from sc.prog sc.hist (hist_sigOK2 sc) (scenario_start sc) hr

end Cobweb
