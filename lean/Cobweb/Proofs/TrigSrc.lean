/-
  Cobweb.Proofs.TrigSrc — where trigger commands come from (C14, whole-execution half).

  A *trigger command* is what a reacting accessor queues: `mutReact` (`React::get_mut` / `set_if_neq` that differs /
  `trigger_mutation`), `insReact` (`ReactCommands::insert`), `resMut` (`ReactResMut::get_mut` / `set_if_neq` that differs /
  `trigger_resource_mutation`). `nTrig s` counts the trigger commands waiting anywhere (world queue, batches, the commands a
  running body has queued so far). Every frame of the machine is accounted for: only a scripted action adds trigger
  commands — exactly those `enqueue` returns for it, which `Theorems/C14.lean` characterises accessor by accessor — and only
  the application of a trigger command takes one away. No reaction, poll, registration, despawn, clean-up or replay makes one.
-/
import Cobweb.Proofs.SysLive

namespace Cobweb

/-- Commands that schedule reactions on behalf of a reacting accessor. -/
def isTrig : Cmd → Bool
  | .mutReact _ _ => true
  | .insReact _ _ => true
  | .resMut _ => true
  | _ => false

/-- Trigger commands in a list. -/
def cTrig (cs : List Cmd) : Nat := cs.countP isTrig

/-- Trigger commands waiting anywhere in the state. -/
def nTrig (s : St) : Nat := cTrig (allCmds s)

@[simp] theorem cTrig_nil : cTrig [] = 0 := rfl
@[simp] theorem cTrig_append (a b : List Cmd) : cTrig (a ++ b) = cTrig a + cTrig b := by simp [cTrig]
theorem cTrig_cons (c : Cmd) (cs : List Cmd) : cTrig (c :: cs) = (if isTrig c then 1 else 0) + cTrig cs := by
  simp only [cTrig, List.countP_cons]; omega

theorem cTrig_map_zero {α : Type} (f : α → Cmd) (l : List α) (h : ∀ x, isTrig (f x) = false) : cTrig (l.map f) = 0 := by
  induction l with
  | nil => rfl
  | cons x xs ih => simp [cTrig_cons, h x, ih]

theorem cTrig_zero_of {cs : List Cmd} (h : ∀ c ∈ cs, isTrig c = false) : cTrig cs = 0 := by
  induction cs with
  | nil => rfl
  | cons c cs ih =>
    rw [cTrig_cons, h c (by simp), ih (fun x hx => h x (by simp [hx]))]; rfl

theorem nTrig_def (s : St) : nTrig s = cTrig s.wq + cTrig (s.stack.flatMap frameCmds) := by
  simp [nTrig, allCmds]

/-- Same world queue, and the stack grew by frames that carry `n` trigger commands. -/
theorem nTrig_of {s s' : St} {fs : List Frame} (hw : s'.wq = s.wq) (hst : s'.stack = fs ++ s.stack) :
    nTrig s' = nTrig s + cTrig (fs.flatMap frameCmds) := by
  rw [nTrig_def, nTrig_def, hw, hst]; simp; omega

theorem nTrig_same {s s' : St} (hw : s'.wq = s.wq) (hst : s'.stack = s.stack) : nTrig s' = nTrig s := by
  rw [nTrig_def, nTrig_def, hw, hst]

/-! ### registration never queues a trigger -/

theorem regCmds_noTrig (s : St) (h : Handle) (t : Trig) : cTrig (regCmds s h t).2 = 0 := by
  unfold regCmds
  cases t <;> simp only [] <;> (repeat' split) <;> simp [cTrig_cons, isTrig]

theorem regAll_noTrig (s : St) (h : Handle) (ts : List Trig) : cTrig (regAll s h ts).2 = 0 := by
  induction ts generalizing s with
  | nil => simp [regAll]
  | cons t ts ih => simp [regAll, regCmds_noTrig, ih]

/-! ### applying a command never queues a trigger -/

theorem nTrig_pushed {s s' : St} (fs : List Frame) (hw : s'.wq = s.wq) (hst : s'.stack = fs ++ s.stack)
    (h0 : cTrig (fs.flatMap frameCmds) = 0) : nTrig s' = nTrig s := by
  rw [nTrig_of hw hst, h0]; rfl

theorem applyCmd_nTrig (s : St) (c : Cmd) : nTrig (applyCmd s c) = nTrig s := by
  have same : ∀ s' : St, s'.wq = s.wq → s'.stack = s.stack → nTrig s' = nTrig s := fun s' a b => nTrig_same a b
  have one : ∀ (s' : St) (f : Frame), s'.wq = s.wq → s'.stack = f :: s.stack → frameCmds f = [] → nTrig s' = nTrig s :=
    fun s' f a b c => nTrig_pushed [f] a (by simpa using b) (by simp [c])
  have bat : ∀ (s' : St) (cs : List Cmd), s'.wq = s.wq → s'.stack = .flush :: .batch cs :: s.stack → cTrig cs = 0 → nTrig s' = nTrig s :=
    fun s' cs a b c => nTrig_pushed [.flush, .batch cs] a (by simpa using b) (by simp [frameCmds, c])
  cases c <;> simp only [applyCmd]
  case marker m => exact same _ (by simp [St.emit]) (by simp [St.emit])
  case run sys => exact one _ _ rfl rfl rfl
  case sysEvent sys d => exact one _ _ rfl rfl rfl
  case reactRes sys => exact one _ _ rfl rfl rfl
  case reactEnt src rt sys => exact one _ _ rfl rfl rfl
  case reactDsp src sys h => exact one _ _ rfl rfl rfl
  case reactEv t d sys => exact one _ _ rfl rfl rfl
  case reactBc d sys => exact one _ _ rfl rfl rfl
  case spawnStorage sys => split <;> exact same _ (by simp) (by simp)
  case insertOnce sys => split <;> exact same _ (by simp [St.emit]) (by simp [St.emit])
  case spawnData d x => split <;> exact same _ (by simp [St.emit]) (by simp [St.emit])
  case broadcast ty pid =>
    split
    · exact same _ (by simp [St.emit]) (by simp [St.emit])
    · refine bat _ _ rfl rfl ?_
      rw [cTrig_cons, cTrig_map_zero _ _ (fun _ => rfl)]; rfl
  case entityEvent e ty pid =>
    split
    · exact same _ (by simp [St.emit]) (by simp [St.emit])
    · refine bat _ _ rfl rfl ?_
      rw [cTrig_cons, cTrig_append, cTrig_map_zero _ _ (fun _ => rfl), cTrig_map_zero _ _ (fun _ => rfl)]; rfl
  case resMut ty =>
    refine bat _ _ rfl rfl ?_
    exact cTrig_map_zero _ _ (fun _ => rfl)
  case tryInsert e ty v => split <;> exact same _ (by simp) (by simp)
  case insReact e ty =>
    split
    · exact same _ (by simp [St.emit]) (by simp [St.emit])
    · refine bat _ _ rfl rfl ?_
      rw [cTrig_append, cTrig_map_zero _ _ (fun _ => rfl), cTrig_map_zero _ _ (fun _ => rfl)]
  case mutReact e ty =>
    refine bat _ _ rfl rfl ?_
    rw [cTrig_append, cTrig_map_zero _ _ (fun _ => rfl), cTrig_map_zero _ _ (fun _ => rfl)]
  case register trigs sys mode =>
    split
    · exact bat _ (regAll s ⟨sys, none⟩ trigs).2 (by simp [St.push]) (by simp [St.push]) (regAll_noTrig _ _ _)
    · exact bat _ (regAll (newArc s sys).2 ⟨sys, some (newArc s sys).1⟩ trigs).2 (by simp [St.push]) (by simp [St.push])
        (regAll_noTrig _ _ _)
  case regType t ty h => exact same _ (by simp; split <;> rfl) (by simp; split <;> rfl)
  case regEnt rt e h => (repeat' split) <;> exact same _ (by simp) (by simp)
  case regDsp e h => split <;> exact same _ (by simp) (by simp)
  case trackRemovals ty => split <;> exact same _ (by simp) (by simp)
  case revoke sys trigs => exact same _ (by simp) (by simp)
  case despawn e => exact same _ (by simp) (by simp)
  case despawnRec e => exact one _ _ rfl rfl rfl
  case removeComp e ty => split <;> exact same _ (by simp) (by simp)
  case cleanup k => exact same _ (by simp) (by simp)
  case ewrInsertLocal e wr v => split <;> exact same _ (by simp) (by simp)
  case ewrCleanupData sys e wr => (repeat' split) <;> exact same _ (by simp) (by simp)
  case ewrAdd e wr v sys =>
    split
    · refine bat _ _ rfl rfl ?_
      simp [cTrig_cons, isTrig]
    · exact same _ rfl rfl

/-! ### the polls never queue a trigger -/

theorem pollRemovals_noTrig (s : St) : cTrig (pollRemovals s).2 = 0 := by
  unfold pollRemovals
  have : ∀ (tys : List Nat) (acc : St × List Cmd), cTrig acc.2 = 0 → cTrig (tys.foldl pollRemStep acc).2 = 0 := by
    intro tys
    induction tys with
    | nil => intro acc h; exact h
    | cons ty tys ih =>
      intro acc h
      apply ih
      simp only [pollRemStep, cTrig_append, h, Nat.zero_add]
      apply cTrig_zero_of
      intro c hc
      obtain ⟨e, _, hce⟩ := List.mem_flatMap.mp hc
      simp only [removalCmdsFor] at hce
      rcases List.mem_append.mp hce with h1 | h1
      · obtain ⟨_, _, rfl⟩ := List.mem_map.mp h1; rfl
      · obtain ⟨_, _, rfl⟩ := List.mem_map.mp h1; rfl
  exact this _ _ rfl

theorem pollDespawns_noTrig (s : St) : cTrig (pollDespawns s).2 = 0 := by
  unfold pollDespawns
  have : ∀ (es : List Nat) (acc : St × List Cmd), cTrig acc.2 = 0 → cTrig (es.foldl pollDspStep acc).2 = 0 := by
    intro es
    induction es with
    | nil => intro acc h; exact h
    | cons e es ih =>
      intro acc h
      apply ih
      simp only [pollDspStep, cTrig_append, h, Nat.zero_add]
      exact cTrig_map_zero _ _ (fun _ => rfl)
  exact this _ _ rfl

/-! ### every frame accounted for -/

/-- Trigger commands the step of frame `f` adds: those the scripted action it performs queues. -/
def produced (p : Prog) (h : Hist) (s : St) : Frame → Nat
  | .bodyActs sys _ i _ => match p sys i s with | some a => cTrig (enqueue s a).2 | none => 0
  | .exclActs sys i => match p sys i s with | some a => cTrig (enqueue s a).2 | none => 0
  | .topActs t i => match h.act t i s with | some a => cTrig (enqueue s a).2 | none => 0
  | _ => 0

/-- ... and takes away: the trigger command it applies. -/
def consumed : Frame → Nat
  | .batch (c :: _) => if isTrig c then 1 else 0
  | _ => 0

theorem nTrig_wq {s s' : St} {fs : List Frame} (cs : List Cmd) (hw : s'.wq = s.wq ++ cs) (hst : s'.stack = fs ++ s.stack) :
    nTrig s' = nTrig s + cTrig cs + cTrig (fs.flatMap frameCmds) := by
  rw [nTrig_def, nTrig_def, hw, hst]; simp; omega

theorem runFrame_nTrig (p : Prog) (h : Hist) (s : St) (f : Frame) :
    nTrig (runFrame p h s f) + consumed f = nTrig s + cTrig (frameCmds f) + produced p h s f := by
  have plain : ∀ (s' : St) (fs : List Frame), s'.wq = s.wq → s'.stack = fs ++ s.stack → (∀ g ∈ fs, frameCmds g = []) →
      nTrig s' = nTrig s := by
    intro s' fs hw hst hfs
    refine nTrig_pushed fs hw hst ?_
    have : fs.flatMap frameCmds = [] := by
      apply List.flatMap_eq_nil_iff.mpr; exact hfs
    rw [this]; rfl
  cases f <;> simp only [runFrame, frameCmds, consumed, produced, cTrig_nil, Nat.add_zero]
  case batch cs =>
    cases cs with
    | nil => simp [doBatch]
    | cons c cs =>
      simp only [doBatch, applyCmd_nTrig]
      rw [nTrig_of (s := s) (s' := s.push [.flush, .batch cs]) (fs := [.flush, .batch cs]) rfl rfl, cTrig_cons]
      simp [frameCmds]; omega
  case flush =>
    unfold doFlush
    split
    · rfl
    · rw [nTrig_def, nTrig_def]; simp [St.push, frameCmds]
  case bodyActs sys k i acc =>
    cases hp : p sys i s with
    | none =>
      simp only [doBodyActs, hp]
      rw [nTrig_of (s := s) (fs := [.cleanup k, .flush, .batch acc]) (by simp [St.push, St.emit]) (by simp [St.push, St.emit])]
      simp [frameCmds]
    | some a =>
      simp only [doBodyActs, hp]
      rw [nTrig_of (s := s) (fs := [.bodyActs sys k (i + 1) (acc ++ (enqueue s a).2)]) (by simp [St.push]) (by simp [St.push])]
      simp [frameCmds]; omega
  case exclActs sys i =>
    cases hp : p sys i s with
    | none =>
      simp only [doExclActs, hp]
      rw [plain _ [.flush] (by simp [St.push, St.emit]) (by simp [St.push, St.emit]) (by simp [frameCmds])]
      rfl
    | some a =>
      by_cases hr : ∃ t, a = .runNow t
      · obtain ⟨t, rfl⟩ := hr
        simp only [doExclActs, hp]
        rw [plain _ [.runnerStart t .plain, .exclActs sys (i + 1)] (by simp [St.push]) (by simp [St.push]) (by simp [frameCmds])]
        simp [enqueue, cTrig_cons, isTrig]
      · have hdo : doExclActs p s sys i = ({ (enqueue s a).1 with wq := (enqueue s a).1.wq ++ (enqueue s a).2 }).push
            (if a = Act.flushWorld then [Frame.flush, Frame.exclActs sys (i + 1)] else [Frame.exclActs sys (i + 1)]) := by
          unfold doExclActs
          rw [hp]
          cases a <;> first | rfl | exact absurd ⟨_, rfl⟩ hr
        rw [hdo]
        split
        · rw [nTrig_wq (s := s) (fs := [.flush, .exclActs sys (i + 1)]) (enqueue s a).2 (by simp [St.push]) (by simp [St.push])]
          simp [frameCmds]
        · rw [nTrig_wq (s := s) (fs := [.exclActs sys (i + 1)]) (enqueue s a).2 (by simp [St.push]) (by simp [St.push])]
          simp [frameCmds]
  case topActs t i =>
    cases ha : h.act t i s with
    | none =>
      simp only [doTopActs, ha]
      rw [plain _ [.flush] (by simp [St.push]) (by simp [St.push]) (by simp [frameCmds])]
      rfl
    | some a =>
      simp only [doTopActs, ha]
      rw [nTrig_wq (s := s) (fs := [.topActs t (i + 1)]) (enqueue s a).2 (by simp [St.push]) (by simp [St.push])]
      simp [frameCmds]
  case cleanup k => exact nTrig_same (by simp) (by simp)
  case onceTail sys =>
    unfold doOnceTail
    rw [nTrig_wq (s := s) (fs := [.flush, .dropCallback sys]) [Cmd.revoke sys (((despawn1 s sys).info sys).once.getD [])]
      (by simp [St.push]) (by simp [St.push])]
    simp [frameCmds, cTrig_cons, isTrig]
  case runnerStart sys k =>
    exact plain _ [.gc, .poll, .runnerLookup sys k s.counter] (by simp [doRunnerStart, St.push, St.emit]) (by simp [doRunnerStart, St.push, St.emit])
      (by simp [frameCmds])
  case runnerLookup sys k idx =>
    unfold doRunnerLookup
    have ab : ∀ s0 : St, s0.wq = s.wq → s0.stack = s.stack → nTrig (s0.push (abortFrames sys k)) = nTrig s := fun s0 a b =>
      plain _ (abortFrames sys k) (by simp [St.push, a]) (by simp [St.push, b]) (by simp [abortFrames, frameCmds])
    split
    · exact ab _ (by simp [St.emit]) (by simp [St.emit])
    · split
      · exact ab _ (by simp [St.emit]) (by simp [St.emit])
      · split
        · exact ab _ (by simp [St.emit]) (by simp [St.emit])
        · exact nTrig_same (by simp [St.emit]) (by simp [St.emit])
      · dsimp only
        split
        · exact plain _ [.afterBody sys idx] (by simp [St.push, St.emit]) (by simp [St.push, St.emit]) (by simp [frameCmds])
        · split
          · exact plain _ [.bodyActs sys k 0 [], .onceTail sys, .afterBody sys idx] (by simp [St.push]) (by simp [St.push]) (by simp [frameCmds])
          · split
            · rw [nTrig_wq (s := s) (fs := [.exclActs sys 0, .afterBody sys idx]) [Cmd.cleanup k] (by simp [St.push]) (by simp [St.push])]
              simp [frameCmds, cTrig_cons, isTrig]
            · exact plain _ [.bodyActs sys k 0 [], .afterBody sys idx] (by simp [St.push]) (by simp [St.push]) (by simp [frameCmds])
  case afterBody sys idx =>
    exact plain _ [.gc, .reinsert sys idx] (by simp [doAfterBody, St.push, St.emit]) (by simp [doAfterBody, St.push, St.emit]) (by simp [frameCmds])
  case dropCallback sys => exact nTrig_same (by simp [St.emit]) (by simp [St.emit])
  case reinsert sys idx =>
    unfold doReinsert
    split
    · exact plain _ [.poll, .replayTake sys idx] (by simp [St.push, St.emit]) (by simp [St.push, St.emit]) (by simp [frameCmds])
    · exact plain _ [.despawnWork [(sys, false)], .gc, .poll, .replayTake sys idx] (by dsimp only; split <;> simp [St.push, St.emit])
        (by dsimp only; split <;> simp [St.push, St.emit]) (by simp [frameCmds])
    · exact plain _ [.gc, .poll, .replayTake sys idx] (by dsimp only; split <;> simp [St.push, St.emit])
        (by dsimp only; split <;> simp [St.push, St.emit]) (by simp [frameCmds])
  case replayTake sys idx =>
    exact plain _ [.replayLoop sys s.buffered [] idx] (by simp [doReplayTake, St.push]) (by simp [doReplayTake, St.push]) (by simp [frameCmds])
  case replayLoop sys rest kept idx =>
    unfold doReplayLoop
    split
    · exact plain _ [.finish sys idx] (by simp [St.push]) (by simp [St.push]) (by simp [frameCmds])
    · split
      · rename_i b bs _
        exact plain _ [.runnerStart b.1 b.2, .replayLoop sys bs kept idx] (by simp [St.push, St.emit]) (by simp [St.push, St.emit]) (by simp [frameCmds])
      · rename_i b bs _
        exact plain _ [.replayLoop sys bs (kept ++ [b]) idx] (by simp [St.push]) (by simp [St.push]) (by simp [frameCmds])
  case finish sys idx =>
    unfold doFinish
    split
    · split
      · exact nTrig_same (by simp [St.emit]) (by simp [St.emit])
      · rename_i b bs hb
        exact plain _ (abortFrames b.1 b.2 ++ [Frame.finish sys idx]) (by simp [St.push, St.emit]) (by simp [St.push, St.emit])
          (by simp [abortFrames, frameCmds])
    · exact nTrig_same (by simp [St.emit]) (by simp [St.emit])
  case abort sys k => exact nTrig_same (by simp) (by simp)
  case gc =>
    unfold doGc
    split
    · rfl
    · rename_i e es _
      exact plain _ [.despawnWork [(e, false)], .gc] (by simp [St.push]) (by simp [St.push]) (by simp [frameCmds])
  case despawnWork work =>
    unfold doDespawnWork
    split
    · rfl
    · rename_i e expanded work
      split
      · split
        · exact plain _ [.despawnWork work] (by simp [St.push]) (by simp [St.push]) (by simp [frameCmds])
        · exact plain _ [.flush, .despawnWork ((e, true) :: work)] (by simp [St.push]) (by simp [St.push]) (by simp [frameCmds])
      · split
        · exact plain _ [.despawnWork ((s.children e).map (fun c => (c, false)) ++ (e, true) :: work)] (by simp [St.push]) (by simp [St.push])
            (by simp [frameCmds])
        · exact plain _ [.despawnWork work] (by simp [St.push]) (by simp [St.push]) (by simp [frameCmds])
  case poll =>
    unfold doPoll
    rw [nTrig_wq (s := s) (fs := [.flush]) ((pollRemovals s).2 ++ (pollDespawns (pollRemovals s).1).2)
      (by simp [St.push, List.append_assoc]) (by simp [St.push])]
    simp [frameCmds, pollRemovals_noTrig, pollDespawns_noTrig]

/-! ### steps, top-level operations, ticks -/

/-- What the next step takes away ... -/
def consumedAt (s : St) : Nat :=
  match s.stack with
  | f :: _ => consumed f
  | [] => 0

/-- ... and adds. -/
def producedAt (p : Prog) (h : Hist) (s : St) : Nat :=
  match s.stack with
  | f :: rest => produced p h { s with stack := rest } f
  | [] => 0

theorem step_nTrig (p : Prog) (h : Hist) {s s' : St} (hs : step p h s = some s') :
    nTrig s' + consumedAt s = nTrig s + producedAt p h s := by
  unfold step at hs
  split at hs
  · cases hs
  · rename_i f rest hst
    simp only [Option.some.injEq] at hs; subst hs
    have h1 := runFrame_nTrig p h { s with stack := rest } f
    have h2 : nTrig s = nTrig ({ s with stack := rest } : St) + cTrig (frameCmds f) := by
      rw [nTrig_def, nTrig_def, hst]; simp; omega
    simp only [consumedAt, producedAt, hst]
    omega

theorem startTop_nTrig (s : St) (t : Nat) (op : TopOp) (h0 : s.stack = []) : nTrig (startTop s t op) = nTrig s := by
  have em : nTrig (s.emit (.top t)) = nTrig s := nTrig_same rfl rfl
  have plain : ∀ (s' : St) (fs : List Frame), s'.wq = s.wq → s'.stack = fs ++ s.stack → (∀ g ∈ fs, frameCmds g = []) →
      nTrig s' = nTrig s := by
    intro s' fs hw hst hfs
    refine nTrig_pushed fs hw hst ?_
    have : fs.flatMap frameCmds = [] := by
      apply List.flatMap_eq_nil_iff.mpr; exact hfs
    rw [this]; rfl
  unfold startTop
  cases op <;> dsimp only
  case acts => exact plain _ [.topActs t 0] (by simp [St.push, St.emit]) (by simp [St.push, St.emit]) (by simp [frameCmds])
  case wDespawn e => exact nTrig_same (by simp [St.emit]) (by simp [St.emit])
  case wDespawnRec e => exact plain _ [.despawnWork [(e, false)]] (by simp [St.push, St.emit]) (by simp [St.push, St.emit]) (by simp [frameCmds])
  case wRemove e ty => rw [applyCmd_nTrig, em]
  case wInsertRaw e ty v => rw [applyCmd_nTrig, em]
  case wSetParent c p => split <;> exact nTrig_same (by simp [St.emit]) (by simp [St.emit])
  case gc => exact plain _ [.gc] (by simp [St.push, St.emit]) (by simp [St.push, St.emit]) (by simp [frameCmds])
  case poll => exact plain _ [.poll] (by simp [St.push, St.emit]) (by simp [St.push, St.emit]) (by simp [frameCmds])
  case frameEnd => exact plain _ [.gc, .poll] (by simp [St.push, St.emit]) (by simp [St.push, St.emit]) (by simp [frameCmds])
  case clearTrackers => exact nTrig_same (by simp [St.emit]) (by simp [St.emit])
  case wSysEvent sys ty pid => rw [applyCmd_nTrig]; exact nTrig_same (by simp [St.emit, St.fresh]) (by simp [St.emit, St.fresh])
  case wBroadcast ty pid => rw [applyCmd_nTrig]; exact nTrig_same (by simp [St.emit]) (by simp [St.emit])
  case wEntityEvent e ty pid => rw [applyCmd_nTrig]; exact nTrig_same (by simp [St.emit]) (by simp [St.emit])
  case sigPrepare e => exact nTrig_same (by simp [St.emit]) (by simp [St.emit])
  case sigClone a => split <;> exact nTrig_same (by simp [St.emit]) (by simp [St.emit])
  case sigDrop a => split <;> exact nTrig_same (by simp [St.emit]) (by simp [St.emit])
  case sigThreads a b => exact plain _ [.gc] (by simp [St.push, St.emit]) (by simp [St.push, St.emit]) (by simp [frameCmds])

/-- **Every tick of every execution**: the number of trigger commands waiting anywhere changes by exactly what the
    scripted action performed in this tick queues, minus the trigger command this tick applies. -/
theorem tick_nTrig (p : Prog) (h : Hist) {s s' : St} (ht : tick p h s = some s') :
    nTrig s' + consumedAt s = nTrig s + producedAt p h s := by
  unfold tick at ht
  split at ht
  · rename_i s'' hs
    simp only [Option.some.injEq] at ht; subst ht
    exact step_nTrig p h hs
  · rename_i hnone
    have h0 : s.stack = [] := by
      unfold step at hnone
      split at hnone
      · assumption
      · cases hnone
    split at ht
    · simp only [Option.some.injEq] at ht; subst ht
      rw [startTop_nTrig _ _ _ (by simpa using h0)]
      have e : nTrig ({ s with topIdx := s.topIdx + 1 } : St) = nTrig s := nTrig_same rfl rfl
      have c0 : consumedAt s = 0 := by simp [consumedAt, h0]
      have p0 : producedAt p h s = 0 := by simp [producedAt, h0]
      rw [c0, p0, e]
    · cases ht

end Cobweb
