/-
  Cobweb.Proofs.CtlStep — the control invariant is preserved by every machine step and every top-level operation.
-/
import Cobweb.Proofs.Ctl

namespace Cobweb

theorem same_pollRemovals_aux (tys : List Nat) (acc : St × List Cmd) : Same acc.1 (tys.foldl pollRemStep acc).1 := by
  induction tys generalizing acc with
  | nil => exact Same.refl _
  | cons ty tys ih => exact Same.after (ih _) ⟨rfl, rfl, rfl, rfl, rfl, rfl⟩

theorem same_pollRemovals (s : St) : Same s (pollRemovals s).1 := same_pollRemovals_aux s.tracked (s, [])

theorem same_pollDespawns_aux (es : List Nat) (acc : St × List Cmd) : Same acc.1 (es.foldl pollDspStep acc).1 := by
  induction es generalizing acc with
  | nil => exact Same.refl _
  | cons e es ih => exact Same.after (ih _) ⟨rfl, rfl, rfl, rfl, rfl, rfl⟩

theorem same_pollDespawns (s : St) : Same s (pollDespawns s).1 :=
  Same.after (same_pollDespawns_aux s.dspChan ({ s with dspChan := [] }, [])) ⟨rfl, rfl, rfl, rfl, rfl, rfl⟩

/-- `BenignP` for a benign change followed by setting `wq` and pushing inert frames. -/
theorem benignP_wq_push {s s' : St} (h : BenignS s s') (q : List Cmd) (fs : List Frame) (hf : ∀ f ∈ fs, f.inert = true) :
    BenignP s (({ s' with wq := q } : St).push fs) := by
  have h' : BenignS s ({ s' with wq := q } : St) := h.trans (Same.benignS ⟨rfl, rfl, rfl, rfl, rfl, rfl⟩)
  exact benignP_push h' fs hf

theorem inert_one {f : Frame} (h : f.inert = true) : ∀ g ∈ [f], g.inert = true := by
  intro g hg; simp at hg; subst hg; exact h

theorem inert_abortFrames (sys : Nat) (k : Kind) : ∀ f ∈ abortFrames sys k, f.inert = true := by
  intro f hf; simp [abortFrames] at hf; rcases hf with rfl | rfl | rfl <;> rfl

end Cobweb

namespace Cobweb

theorem inert3 {a b c : Frame} (ha : a.inert = true) (hb : b.inert = true) (hc : c.inert = true) :
    ∀ f ∈ [a, b, c], f.inert = true := by
  intro f hf; simp at hf; rcases hf with rfl | rfl | rfl <;> assumption
theorem inert2 {a b : Frame} (ha : a.inert = true) (hb : b.inert = true) : ∀ f ∈ [a, b], f.inert = true := by
  intro f hf; simp at hf; rcases hf with rfl | rfl <;> assumption

theorem benignP_doBatch (s : St) (cs : List Cmd) : BenignP s (doBatch s cs) := by
  cases cs with
  | nil => exact (BenignS.refl _).toP
  | cons c cs => exact (benignP_push (BenignS.refl _) _ (inert_flush_batch cs)).trans (benignP_applyCmd _ c)

theorem benignP_doFlush (s : St) : BenignP s (doFlush s) := by
  unfold doFlush; split
  · exact (BenignS.refl _).toP
  · p_push_same1

theorem benignP_doBodyActs (p : Prog) (s : St) (sys : Nat) (k : Kind) (i : Nat) (acc : List Cmd) :
    BenignP s (doBodyActs p s sys k i acc) := by
  unfold doBodyActs; split
  · exact benignP_push (same_emit _ _).benignS _ (inert3 rfl rfl rfl)
  · exact benignP_push (benignS_enqueue _ _) _ (inert_one rfl)

theorem benignP_doExclActs (p : Prog) (s : St) (sys i : Nat) : BenignP s (doExclActs p s sys i) := by
  unfold doExclActs; split
  · exact benignP_push (same_emit _ _).benignS _ (inert_one rfl)
  · exact benignP_push (BenignS.refl _) _ (inert2 rfl rfl)
  · split
    · exact benignP_wq_push (benignS_enqueue _ _) _ _ (inert2 rfl rfl)
    · exact benignP_wq_push (benignS_enqueue _ _) _ _ (inert_one rfl)

theorem benignP_doTopActs (h : Hist) (s : St) (t i : Nat) : BenignP s (doTopActs h s t i) := by
  unfold doTopActs; split
  · exact benignP_push (BenignS.refl _) _ (inert_one rfl)
  · exact benignP_wq_push (benignS_enqueue _ _) _ _ (inert_one rfl)

theorem benignP_doOnceTail (s : St) (sys : Nat) : BenignP s (doOnceTail s sys) := by
  unfold doOnceTail
  exact benignP_wq_push (benignS_despawn1 _ _) _ _ (inert2 rfl rfl)

theorem benignP_doGc (s : St) : BenignP s (doGc s) := by
  unfold doGc; split
  · exact (BenignS.refl _).toP
  · refine benignP_push (Same.benignS ?_) _ (inert2 rfl rfl); same_rfl

theorem benignP_doDespawnWork (s : St) (work : List (Nat × Bool)) : BenignP s (doDespawnWork s work) := by
  unfold doDespawnWork
  split
  · exact (BenignS.refl _).toP
  · split
    · split
      · exact benignP_push (benignS_despawn1 _ _) _ (inert_one rfl)
      · exact benignP_push (BenignS.refl _) _ (inert2 rfl rfl)
    · split
      · refine benignP_push (Same.benignS ?_) _ (inert_one rfl); same_rfl
      · exact benignP_push (BenignS.refl _) _ (inert_one rfl)

theorem benignP_doPoll (s : St) : BenignP s (doPoll s) := by
  unfold doPoll
  exact benignP_wq_push ((same_pollRemovals _).trans (same_pollDespawns _)).benignS _ _ (inert_one rfl)

/-- Every inert frame except `runnerStart` changes the popped state benignly. -/
theorem benignP_runFrame_inert (p : Prog) (h : Hist) (s : St) (f : Frame) (hf : f.inert = true)
    (hnr : ∀ sys k, f ≠ .runnerStart sys k) : BenignP s (runFrame p h s f) := by
  cases f with
  | batch cs => exact benignP_doBatch s cs
  | flush => exact benignP_doFlush s
  | bodyActs sys k i acc => exact benignP_doBodyActs p s sys k i acc
  | exclActs sys i => exact benignP_doExclActs p s sys i
  | topActs t i => exact benignP_doTopActs h s t i
  | cleanup k => exact (benignS_cleanupK _ _).toP
  | onceTail sys => exact benignP_doOnceTail s sys
  | dropCallback sys => exact (same_emit _ _).benignS.toP
  | runnerStart sys k => exact absurd rfl (hnr sys k)
  | abort sys k => exact ((same_setupK _ _ _).benignS.trans (benignS_cleanupK _ _)).toP
  | gc => exact benignP_doGc s
  | despawnWork work => exact benignP_doDespawnWork s work
  | poll => exact benignP_doPoll s
  | runnerLookup sys k idx => simp [Frame.inert, Frame.active, Frame.idx?] at hf
  | afterBody sys idx => simp [Frame.inert, Frame.active, Frame.idx?] at hf
  | reinsert sys idx => simp [Frame.inert, Frame.active, Frame.idx?] at hf
  | replayTake sys idx => simp [Frame.inert, Frame.active, Frame.idx?] at hf
  | replayLoop sys r kp idx => simp [Frame.inert, Frame.active, Frame.idx?] at hf
  | finish sys idx => simp [Frame.inert, Frame.active, Frame.idx?] at hf

theorem running_cons (f : Frame) (rest : List Frame) : running (f :: rest) = f.runSys.toList ++ running rest := by
  cases h : f.runSys <;> simp [running, h]
theorem waiting_cons (f : Frame) (rest : List Frame) : waiting (f :: rest) = f.waitSys.toList ++ waiting rest := by
  cases h : f.waitSys <;> simp [waiting, h]
theorem hasActive_cons (f : Frame) (rest : List Frame) : hasActive (f :: rest) = (f.active || hasActive rest) := by
  simp [hasActive, List.any_cons]

theorem ctl_doRunnerStart {s : St} {sys : Nat} {k : Kind} {rest : List Frame} (hc : Ctl s)
    (hst : s.stack = .runnerStart sys k :: rest) : Ctl (doRunnerStart { s with stack := rest } sys k) := by
  have hc0 := ctl_pop_passive hc hst (by rfl)
  have hr : running (Frame.gc :: .poll :: .runnerLookup sys k s.counter :: rest) = running rest := by
    simp [running_cons, Frame.runSys]
  have hw : waiting (Frame.gc :: .poll :: .runnerLookup sys k s.counter :: rest) = waiting rest := by
    simp [waiting_cons, Frame.waitSys]
  have ha : hasActive (Frame.gc :: .poll :: .runnerLookup sys k s.counter :: rest) = hasActive rest := by
    simp [hasActive_cons, Frame.active]
  constructor
  · exact hc0.fresh
  · exact hc0.takenAlive
  · intro e he; show e ∈ running (_ :: _ :: _ :: rest); rw [hr]; exact hc0.takenRunning e he
  · intro e he; apply hc0.runningTaken e; have : e ∈ running (_ :: _ :: _ :: rest) := he; rw [hr] at this; exact this
  · intro e he; apply hc0.runningOld e; have : e ∈ running (_ :: _ :: _ :: rest) := he; rw [hr] at this; exact this
  · show (running (_ :: _ :: _ :: rest)).Nodup; rw [hr]; exact hc0.nodup
  · show s.counter = 0 ↔ hasActive (_ :: _ :: _ :: rest) = false; rw [ha]; exact hc0.counter
  · show StackOK (_ :: _ :: _ :: rest)
    refine ⟨⟨?_, trivial⟩, ⟨?_, trivial⟩, ⟨?_, trivial⟩, hc0.stackOK⟩
    · intro i hi; simp [Frame.idx?] at hi
    · intro i hi; simp [Frame.idx?] at hi
    · intro i hi
      simp only [Frame.idx?, Option.some.injEq] at hi
      subst hi
      exact hc0.counter
  · intro b hb; show b.1 ∈ waiting (_ :: _ :: _ :: rest); rw [hw]; exact hc0.buffered b hb

end Cobweb

namespace Cobweb

theorem same_foldl_emit (l : List Nat) (s : St) :
    Same s (l.foldl (fun (s : St) pid => s.emit (.dropPayload pid)) s) := by
  induction l generalizing s with
  | nil => exact Same.refl s
  | cons x l ih => exact Same.after (ih _) (same_emit _ _)

/-- The callback of `sys` is taken and its activation frame pushed. -/
theorem ctl_take {s0 s' : St} {sys idx : Nat} {rest fs : List Frame} (hc : Ctl s0) (hst : s0.stack = rest)
    (hal : s0.alive sys = true) (hsto : s0.storage sys = some true)
    (hidx : idx = 0 ↔ hasActive rest = false)
    (hfs : ∀ f ∈ fs, f.inert = true)
    (h1 : s'.stack = fs ++ Frame.afterBody sys idx :: rest) (h2 : s'.counter = s0.counter + 1)
    (h3 : s'.buffered = s0.buffered) (h4 : s'.nextEnt = s0.nextEnt)
    (h5 : s'.storage = upd s0.storage sys (some false)) (h6 : s'.alive = s0.alive) : Ctl s' := by
  subst hst
  have hr : running s'.stack = sys :: running s0.stack := by
    rw [h1, running_inert fs _ hfs, running_cons]; rfl
  have hw : waiting s'.stack = sys :: waiting s0.stack := by
    rw [h1, waiting_inert fs _ hfs, waiting_cons]; rfl
  have ha : hasActive s'.stack = true := by
    rw [h1, hasActive_inert fs _ hfs, hasActive_cons]; rfl
  have hnot : sys ∉ running s0.stack := by
    intro hin
    have := hc.runningTaken sys hin hal
    rw [hsto] at this; cases this
  constructor
  · intro e he
    rw [h4] at he
    have ⟨a, b⟩ := hc.fresh e he
    rw [h6, h5]
    refine ⟨a, ?_⟩
    by_cases hes : e = sys
    · subst hes; rw [hsto] at b; cases b
    · simp [hes, b]
  · intro e he
    rw [h5] at he; rw [h6]
    by_cases hes : e = sys
    · subst hes; exact hal
    · simp [hes] at he; exact hc.takenAlive e he
  · intro e he
    rw [h5] at he; rw [hr]
    by_cases hes : e = sys
    · subst hes; simp
    · simp [hes] at he; exact List.mem_cons_of_mem _ (hc.takenRunning e he)
  · intro e he hae
    rw [hr] at he; rw [h6] at hae; rw [h5]
    by_cases hes : e = sys
    · subst hes; simp
    · simp [hes]
      rcases List.mem_cons.mp he with h | h
      · exact absurd h hes
      · exact hc.runningTaken e h hae
  · intro e he
    rw [hr] at he; rw [h4]
    rcases List.mem_cons.mp he with h | h
    · subst h
      apply Nat.lt_of_not_le
      intro hle
      have := (hc.fresh e hle).2
      rw [hsto] at this; cases this
    · exact hc.runningOld e h
  · rw [hr]; exact List.nodup_cons.mpr ⟨hnot, hc.nodup⟩
  · rw [h2, ha]; simp
  · rw [h1]
    apply stackOK_inert fs _ hfs
    refine ⟨⟨?_, trivial⟩, hc.stackOK⟩
    intro i hi
    simp only [Frame.idx?, Option.some.injEq] at hi
    subst hi; exact hidx
  · intro b hb
    rw [h3] at hb; rw [hw]
    exact List.mem_cons_of_mem _ (hc.buffered b hb)

end Cobweb

namespace Cobweb

theorem same_preBody (s : St) (sys : Nat) (k : Kind) : Same s (preBody s sys k) := by
  unfold preBody
  dsimp only
  refine Same.after (same_emit _ _) ?_
  split
  · exact (same_setupK s k sys).trans (same_emit _ _)
  · exact ((same_setupK s k sys).trans (same_emit _ _)).trans (same_emit _ _)

theorem same_startBody (s : St) (sys : Nat) (k : Kind) : Same s (startBody s sys k) := by
  have h1 := same_preBody s sys k
  have h2 := h1.trans (same_observe _ (ewrOf (preBody s sys k) sys))
  unfold startBody
  dsimp only
  refine Same.after (same_foldl_emit _ _) ?_
  refine Same.after (same_emit _ _) ?_
  exact ⟨h2.counter, h2.buffered, h2.next, h2.storage, h2.alive, h2.stack⟩

theorem ctl_doRunnerLookup {s : St} {sys idx : Nat} {k : Kind} {rest : List Frame} (hc : Ctl s)
    (hst : s.stack = .runnerLookup sys k idx :: rest) : Ctl (doRunnerLookup { s with stack := rest } sys k idx) := by
  have hpass : (Frame.runnerLookup sys k idx).passive = true := by rfl
  have hc0 := ctl_pop_passive hc hst hpass
  have hidx : idx = 0 ↔ hasActive rest = false := by
    have := hc.stackOK; rw [hst] at this
    exact this.1.1 idx rfl
  unfold doRunnerLookup
  split
  · exact ctl_benignP hc0 (benignP_push (same_emit _ _).benignS _ (inert_abortFrames _ _))
  · rename_i halive
    have halive : s.alive sys = true := by simpa using halive
    split
    · exact ctl_benignP hc0 (benignP_push (same_emit _ _).benignS _ (inert_abortFrames _ _))
    · rename_i hsto
      split
      · exact ctl_benignP hc0 (benignP_push (same_emit _ _).benignS _ (inert_abortFrames _ _))
      · have hrun : sys ∈ running rest := hc0.takenRunning sys hsto
        constructor
        · exact hc0.fresh
        · exact hc0.takenAlive
        · exact hc0.takenRunning
        · exact hc0.runningTaken
        · exact hc0.runningOld
        · exact hc0.nodup
        · exact hc0.counter
        · exact hc0.stackOK
        · intro b hb
          have hb' : b ∈ s.buffered ++ [(sys, k)] := hb
          rcases List.mem_append.mp hb' with hb1 | hb1
          · exact hc0.buffered b hb1
          · simp at hb1; subst hb1
            exact running_sub_waiting rest sys hrun
    · rename_i hsto
      dsimp only
      split
      · have hS := (same_setupK ({ s with stack := rest, storage := upd s.storage sys (some false), counter := s.counter + 1 } : St) k sys).trans (same_emit _ (.enter sys))
        refine ctl_take (fs := []) hc0 rfl halive hsto hidx (by simp) ?_ hS.counter hS.buffered hS.next hS.storage hS.alive
        show [Frame.afterBody sys idx] ++ _ = _
        rw [hS.stack]; rfl
      · have hS := same_startBody ({ s with stack := rest, storage := upd s.storage sys (some false), counter := s.counter + 1 } : St) sys k
        split
        · refine ctl_take (fs := [.bodyActs sys k 0 [], .onceTail sys]) hc0 rfl halive hsto hidx (inert2 rfl rfl) ?_ hS.counter hS.buffered hS.next hS.storage hS.alive
          show [Frame.bodyActs sys k 0 [], .onceTail sys, .afterBody sys idx] ++ _ = _
          rw [hS.stack]; rfl
        · split
          · refine ctl_take (fs := [.exclActs sys 0]) hc0 rfl halive hsto hidx (inert_one rfl) ?_ hS.counter hS.buffered hS.next hS.storage hS.alive
            show [Frame.exclActs sys 0, .afterBody sys idx] ++ _ = _
            rw [hS.stack]; rfl
          · refine ctl_take (fs := [.bodyActs sys k 0 []]) hc0 rfl halive hsto hidx (inert_one rfl) ?_ hS.counter hS.buffered hS.next hS.storage hS.alive
            show [Frame.bodyActs sys k 0 [], .afterBody sys idx] ++ _ = _
            rw [hS.stack]; rfl

end Cobweb

namespace Cobweb

theorem ctl_doAfterBody {s : St} {sys idx : Nat} {rest : List Frame} (hc : Ctl s)
    (hst : s.stack = .afterBody sys idx :: rest) : Ctl (doAfterBody { s with stack := rest } sys idx) := by
  have hr : running (Frame.gc :: .reinsert sys idx :: rest) = running s.stack := by
    rw [hst]; simp [running_cons, Frame.runSys]
  have hw : waiting (Frame.gc :: .reinsert sys idx :: rest) = waiting s.stack := by
    rw [hst]; simp [waiting_cons, Frame.waitSys]
  have ha : hasActive (Frame.gc :: .reinsert sys idx :: rest) = hasActive s.stack := by
    rw [hst]; simp [hasActive_cons, Frame.active]
  have hso := hc.stackOK; rw [hst] at hso
  constructor
  · exact hc.fresh
  · exact hc.takenAlive
  · intro e he; show e ∈ running (_ :: _ :: rest); rw [hr]; exact hc.takenRunning e he
  · intro e he; apply hc.runningTaken e; have : e ∈ running (_ :: _ :: rest) := he; rw [hr] at this; exact this
  · intro e he; apply hc.runningOld e; have : e ∈ running (_ :: _ :: rest) := he; rw [hr] at this; exact this
  · show (running (_ :: _ :: rest)).Nodup; rw [hr]; exact hc.nodup
  · show s.counter = 0 ↔ hasActive (_ :: _ :: rest) = false; rw [ha]; exact hc.counter
  · show StackOK (_ :: _ :: rest)
    refine ⟨⟨?_, trivial⟩, ⟨?_, trivial⟩, hso.2⟩
    · intro i hi; simp [Frame.idx?] at hi
    · intro i hi
      simp only [Frame.idx?, Option.some.injEq] at hi
      subst hi
      exact hso.1.1 _ rfl
  · intro b hb; show b.1 ∈ waiting (_ :: _ :: rest); rw [hw]; exact hc.buffered b hb

/-- After `reinsert` the activation only waits for its replay: `sys` leaves `running` but stays in `waiting`. -/
theorem ctl_after_reinsert {s s' : St} {sys idx : Nat} {rest fs : List Frame} (hc : Ctl s)
    (hst : s.stack = .reinsert sys idx :: rest) (hfs : ∀ f ∈ fs, f.inert = true)
    (h1 : s'.stack = fs ++ Frame.replayTake sys idx :: rest) (h2 : s'.counter = s.counter)
    (h3 : s'.buffered = s.buffered) (h4 : s'.nextEnt = s.nextEnt) (h6 : s'.alive = s.alive)
    (h5 : ∀ e, e ≠ sys → s'.storage e = s.storage e) (h5' : s'.storage sys ≠ some false)
    (h5'' : s.nextEnt ≤ sys → s'.storage sys = none) : Ctl s' := by
  have hr0 : running s.stack = sys :: running rest := by rw [hst, running_cons]; rfl
  have hr : running s'.stack = running rest := by
    rw [h1, running_inert fs _ hfs, running_cons]; rfl
  have hw : waiting s'.stack = waiting s.stack := by
    rw [h1, waiting_inert fs _ hfs, waiting_cons, hst, waiting_cons]; rfl
  have ha : hasActive s'.stack = hasActive s.stack := by
    rw [h1, hasActive_inert fs _ hfs, hasActive_cons, hst, hasActive_cons]; rfl
  have hnd := hc.nodup; rw [hr0] at hnd
  have hnot : sys ∉ running rest := (List.nodup_cons.mp hnd).1
  have hso := hc.stackOK; rw [hst] at hso
  constructor
  · intro e he
    rw [h4] at he
    have ⟨a, b⟩ := hc.fresh e he
    rw [h6]
    refine ⟨a, ?_⟩
    by_cases hes : e = sys
    · subst hes; exact h5'' he
    · rw [h5 e hes]; exact b
  · intro e he
    rw [h6]
    by_cases hes : e = sys
    · subst hes; exact absurd he h5'
    · rw [h5 e hes] at he; exact hc.takenAlive e he
  · intro e he
    rw [hr]
    by_cases hes : e = sys
    · subst hes; exact absurd he h5'
    · rw [h5 e hes] at he
      have := hc.takenRunning e he
      rw [hr0] at this
      rcases List.mem_cons.mp this with h | h
      · exact absurd h hes
      · exact h
  · intro e he hae
    rw [hr] at he; rw [h6] at hae
    have hes : e ≠ sys := fun h => hnot (h ▸ he)
    rw [h5 e hes]
    exact hc.runningTaken e (by rw [hr0]; exact List.mem_cons_of_mem _ he) hae
  · intro e he
    rw [hr] at he; rw [h4]
    exact hc.runningOld e (by rw [hr0]; exact List.mem_cons_of_mem _ he)
  · rw [hr]; exact (List.nodup_cons.mp hnd).2
  · rw [h2, ha]; exact hc.counter
  · rw [h1]
    apply stackOK_inert fs _ hfs
    refine ⟨⟨?_, trivial⟩, hso.2⟩
    intro i hi
    simp only [Frame.idx?, Option.some.injEq] at hi
    subst hi; exact hso.1.1 _ rfl
  · intro b hb
    rw [h3] at hb; rw [hw]; exact hc.buffered b hb

theorem ctl_doReinsert {s : St} {sys idx : Nat} {rest : List Frame} (hc : Ctl s)
    (hst : s.stack = .reinsert sys idx :: rest) : Ctl (doReinsert { s with stack := rest } sys idx) := by
  unfold doReinsert
  split
  · rename_i hal hsto
    refine ctl_after_reinsert (fs := [.poll]) hc hst (inert_one rfl) rfl rfl rfl rfl rfl ?_ ?_ ?_
    · intro e he; show upd s.storage sys (some true) e = _; simp [he]
    · show upd s.storage sys (some true) sys ≠ _; simp
    · intro hle
      have := (hc.fresh sys hle).1
      have hal' : s.alive sys = true := hal
      rw [hal'] at this; cases this
  · rename_i hal hsto
    have hsto' : s.storage sys = none := hsto
    refine ctl_after_reinsert (fs := [.despawnWork [(sys, false)], .gc, .poll]) hc hst (inert3 rfl rfl rfl) ?_ ?_ ?_ ?_ ?_ ?_ ?_ ?_
    · dsimp only; split <;> rfl
    · dsimp only; split <;> rfl
    · dsimp only; split <;> rfl
    · dsimp only; split <;> rfl
    · dsimp only; split <;> rfl
    · intro e _; dsimp only; split <;> rfl
    · dsimp only; split <;> (show s.storage sys ≠ _; rw [hsto']; simp)
    · intro _; dsimp only; split <;> exact hsto'
  · rename_i hal
    have hal' : s.alive sys = false := hal
    have hsto' : s.storage sys ≠ some false := by
      intro hh; have := hc.takenAlive sys hh; rw [hal'] at this; cases this
    refine ctl_after_reinsert (fs := [.gc, .poll]) hc hst (inert2 rfl rfl) ?_ ?_ ?_ ?_ ?_ ?_ ?_ ?_
    · dsimp only; split <;> rfl
    · dsimp only; split <;> rfl
    · dsimp only; split <;> rfl
    · dsimp only; split <;> rfl
    · dsimp only; split <;> rfl
    · intro e _; dsimp only; split <;> rfl
    · dsimp only; split <;> exact hsto'
    · intro hle; dsimp only; split <;> exact (hc.fresh sys hle).2

end Cobweb

namespace Cobweb

theorem ctl_doReplayTake {s : St} {sys idx : Nat} {rest : List Frame} (hc : Ctl s)
    (hst : s.stack = .replayTake sys idx :: rest) : Ctl (doReplayTake { s with stack := rest } sys idx) := by
  have hr0 : running s.stack = running rest := by rw [hst, running_cons]; rfl
  have hw0 : waiting s.stack = sys :: waiting rest := by rw [hst, waiting_cons]; rfl
  have ha0 : hasActive s.stack = true := by rw [hst, hasActive_cons]; rfl
  have hso := hc.stackOK; rw [hst] at hso
  have hr : running (Frame.replayLoop sys s.buffered [] idx :: rest) = running rest := by rw [running_cons]; rfl
  have hw : waiting (Frame.replayLoop sys s.buffered [] idx :: rest) = waiting rest := by rw [waiting_cons]; rfl
  have ha : hasActive (Frame.replayLoop sys s.buffered [] idx :: rest) = true := by rw [hasActive_cons]; rfl
  unfold doReplayTake
  constructor
  · exact hc.fresh
  · exact hc.takenAlive
  · intro e he; show e ∈ running (_ :: rest); rw [hr, ← hr0]; exact hc.takenRunning e he
  · intro e he; apply hc.runningTaken e; have : e ∈ running (_ :: rest) := he; rw [hr, ← hr0] at this; exact this
  · intro e he; apply hc.runningOld e; have : e ∈ running (_ :: rest) := he; rw [hr, ← hr0] at this; exact this
  · show (running (_ :: rest)).Nodup; rw [hr, ← hr0]; exact hc.nodup
  · show s.counter = 0 ↔ hasActive (_ :: rest) = false
    rw [ha]; have := hc.counter; rw [ha0] at this; exact this
  · show StackOK (_ :: rest)
    refine ⟨⟨?_, ?_, ?_⟩, hso.2⟩
    · intro i hi
      simp only [Frame.idx?, Option.some.injEq] at hi
      subst hi; exact hso.1.1 _ rfl
    · intro b hb; cases hb
    · intro b hb
      have := hc.buffered b hb
      rw [hw0] at this
      rcases List.mem_cons.mp this with h | h
      · exact Or.inl h
      · exact Or.inr h
  · intro b hb; cases hb

theorem ctl_doReplayLoop {s : St} {sys idx : Nat} {r kept : List (Nat × Kind)} {rest : List Frame} (hc : Ctl s)
    (hst : s.stack = .replayLoop sys r kept idx :: rest) : Ctl (doReplayLoop { s with stack := rest } sys r kept idx) := by
  have hr0 : running s.stack = running rest := by rw [hst, running_cons]; rfl
  have hw0 : waiting s.stack = waiting rest := by rw [hst, waiting_cons]; rfl
  have ha0 : hasActive s.stack = true := by rw [hst, hasActive_cons]; rfl
  have hso := hc.stackOK; rw [hst] at hso
  obtain ⟨⟨hidx, hkept, hrest⟩, hbelow⟩ := hso
  have hcnt : s.counter = 0 ↔ true = false := by have := hc.counter; rw [ha0] at this; exact this
  unfold doReplayLoop
  split
  · -- all entries handled: put the kept ones back
    have hr : running (Frame.finish sys idx :: rest) = running rest := by rw [running_cons]; rfl
    have hw : waiting (Frame.finish sys idx :: rest) = waiting rest := by rw [waiting_cons]; rfl
    have ha : hasActive (Frame.finish sys idx :: rest) = true := by rw [hasActive_cons]; rfl
    constructor
    · exact hc.fresh
    · exact hc.takenAlive
    · intro e he; show e ∈ running (_ :: rest); rw [hr, ← hr0]; exact hc.takenRunning e he
    · intro e he; apply hc.runningTaken e; have : e ∈ running (_ :: rest) := he; rw [hr, ← hr0] at this; exact this
    · intro e he; apply hc.runningOld e; have : e ∈ running (_ :: rest) := he; rw [hr, ← hr0] at this; exact this
    · show (running (_ :: rest)).Nodup; rw [hr, ← hr0]; exact hc.nodup
    · show s.counter = 0 ↔ hasActive (_ :: rest) = false; rw [ha]; exact hcnt
    · show StackOK (_ :: rest)
      refine ⟨⟨?_, trivial⟩, hbelow⟩
      intro i hi
      simp only [Frame.idx?, Option.some.injEq] at hi
      subst hi; exact hidx _ rfl
    · intro b hb
      show b.1 ∈ waiting (_ :: rest); rw [hw]
      have hb' : b ∈ s.buffered ++ kept := hb
      rcases List.mem_append.mp hb' with h | h
      · rw [← hw0]; exact hc.buffered b h
      · exact hkept b h
  · rename_i b bs
    split
    · -- replay `b` now
      have hr : running (Frame.runnerStart b.1 b.2 :: .replayLoop sys bs kept idx :: rest) = running rest := by
        rw [running_cons, running_cons]; rfl
      have hw : waiting (Frame.runnerStart b.1 b.2 :: .replayLoop sys bs kept idx :: rest) = waiting rest := by
        rw [waiting_cons, waiting_cons]; rfl
      have ha : hasActive (Frame.runnerStart b.1 b.2 :: .replayLoop sys bs kept idx :: rest) = true := by
        rw [hasActive_cons, hasActive_cons]; rfl
      constructor
      · exact hc.fresh
      · exact hc.takenAlive
      · intro e he; show e ∈ running (_ :: _ :: rest); rw [hr, ← hr0]; exact hc.takenRunning e he
      · intro e he; apply hc.runningTaken e; have : e ∈ running (_ :: _ :: rest) := he; rw [hr, ← hr0] at this; exact this
      · intro e he; apply hc.runningOld e; have : e ∈ running (_ :: _ :: rest) := he; rw [hr, ← hr0] at this; exact this
      · show (running (_ :: _ :: rest)).Nodup; rw [hr, ← hr0]; exact hc.nodup
      · show s.counter = 0 ↔ hasActive (_ :: _ :: rest) = false; rw [ha]; exact hcnt
      · show StackOK (_ :: _ :: rest)
        refine ⟨⟨?_, trivial⟩, ⟨?_, hkept, ?_⟩, hbelow⟩
        · intro i hi; simp [Frame.idx?] at hi
        · intro i hi
          simp only [Frame.idx?, Option.some.injEq] at hi
          subst hi; exact hidx _ rfl
        · intro x hx; exact hrest x (List.mem_cons_of_mem _ hx)
      · intro x hx
        show x.1 ∈ waiting (_ :: _ :: rest); rw [hw, ← hw0]; exact hc.buffered x hx
    · -- keep `b` for later
      rename_i hne
      have hr : running (Frame.replayLoop sys bs (kept ++ [b]) idx :: rest) = running rest := by rw [running_cons]; rfl
      have hw : waiting (Frame.replayLoop sys bs (kept ++ [b]) idx :: rest) = waiting rest := by rw [waiting_cons]; rfl
      have ha : hasActive (Frame.replayLoop sys bs (kept ++ [b]) idx :: rest) = true := by rw [hasActive_cons]; rfl
      constructor
      · exact hc.fresh
      · exact hc.takenAlive
      · intro e he; show e ∈ running (_ :: rest); rw [hr, ← hr0]; exact hc.takenRunning e he
      · intro e he; apply hc.runningTaken e; have : e ∈ running (_ :: rest) := he; rw [hr, ← hr0] at this; exact this
      · intro e he; apply hc.runningOld e; have : e ∈ running (_ :: rest) := he; rw [hr, ← hr0] at this; exact this
      · show (running (_ :: rest)).Nodup; rw [hr, ← hr0]; exact hc.nodup
      · show s.counter = 0 ↔ hasActive (_ :: rest) = false; rw [ha]; exact hcnt
      · show StackOK (_ :: rest)
        refine ⟨⟨?_, ?_, ?_⟩, hbelow⟩
        · intro i hi
          simp only [Frame.idx?, Option.some.injEq] at hi
          subst hi; exact hidx _ rfl
        · intro x hx
          rcases List.mem_append.mp hx with h | h
          · exact hkept x h
          · simp at h; subst h
            rcases hrest x (by simp) with h' | h'
            · exact absurd h' hne
            · exact h'
        · intro x hx; exact hrest x (List.mem_cons_of_mem _ hx)
      · intro x hx
        show x.1 ∈ waiting (_ :: rest); rw [hw, ← hw0]; exact hc.buffered x hx

theorem ctl_doFinish {s : St} {sys idx : Nat} {rest : List Frame} (hc : Ctl s)
    (hst : s.stack = .finish sys idx :: rest) : Ctl (doFinish { s with stack := rest } sys idx) := by
  have hr0 : running s.stack = running rest := by rw [hst, running_cons]; rfl
  have hw0 : waiting s.stack = waiting rest := by rw [hst, waiting_cons]; rfl
  have ha0 : hasActive s.stack = true := by rw [hst, hasActive_cons]; rfl
  have hso := hc.stackOK; rw [hst] at hso
  obtain ⟨⟨hidx, _⟩, hbelow⟩ := hso
  have hidx := hidx idx rfl
  have hcnt : s.counter ≠ 0 := by
    intro h0; have := hc.counter.mp h0; rw [ha0] at this; cases this
  unfold doFinish
  split
  · rename_i h0
    have hina : hasActive rest = false := hidx.mp h0
    have hbuf : s.buffered = [] := by
      cases hb : s.buffered with
      | nil => rfl
      | cons b bs =>
        have := hc.buffered b (by rw [hb]; simp)
        rw [hw0, waiting_nil_of_inactive rest hina] at this
        cases this
    split
    · -- root exit: reset the counter
      constructor
      · exact hc.fresh
      · exact hc.takenAlive
      · intro e he; show e ∈ running rest; rw [← hr0]; exact hc.takenRunning e he
      · intro e he; apply hc.runningTaken e; rw [hr0]; exact he
      · intro e he; apply hc.runningOld e; rw [hr0]; exact he
      · show (running rest).Nodup; rw [← hr0]; exact hc.nodup
      · show (0 : Nat) = 0 ↔ hasActive rest = false; simp [hina]
      · exact hbelow
      · intro b hb
        have hb' : b ∈ s.buffered := hb
        rw [hbuf] at hb'; cases hb'
    · rename_i b bs hb
      have hb' : s.buffered = b :: bs := hb
      rw [hbuf] at hb'; cases hb'
  · rename_i hne
    have hact : hasActive rest = true := by
      cases hx : hasActive rest
      · exact absurd (hidx.mpr hx) hne
      · rfl
    constructor
    · exact hc.fresh
    · exact hc.takenAlive
    · intro e he; show e ∈ running rest; rw [← hr0]; exact hc.takenRunning e he
    · intro e he; apply hc.runningTaken e; rw [hr0]; exact he
    · intro e he; apply hc.runningOld e; rw [hr0]; exact he
    · show (running rest).Nodup; rw [← hr0]; exact hc.nodup
    · show s.counter = 0 ↔ hasActive rest = false
      rw [hact]; simp [hcnt]
    · exact hbelow
    · intro b hb; show b.1 ∈ waiting rest; rw [← hw0]; exact hc.buffered b hb

/-- **The control invariant is preserved by every frame.** -/
theorem ctl_runFrame (p : Prog) (h : Hist) {s : St} {f : Frame} {rest : List Frame} (hc : Ctl s)
    (hst : s.stack = f :: rest) : Ctl (runFrame p h { s with stack := rest } f) := by
  by_cases hin : f.inert = true
  · by_cases hrs : ∃ sys k, f = .runnerStart sys k
    · obtain ⟨sys, k, rfl⟩ := hrs
      exact ctl_doRunnerStart hc hst
    · have hnr : ∀ sys k, f ≠ .runnerStart sys k := fun sys k hh => hrs ⟨sys, k, hh⟩
      exact ctl_pop_benignP hc hst (inert_passive hin) (benignP_runFrame_inert p h _ f hin hnr)
  · cases f with
    | runnerLookup sys k idx => exact ctl_doRunnerLookup hc hst
    | afterBody sys idx => exact ctl_doAfterBody hc hst
    | reinsert sys idx => exact ctl_doReinsert hc hst
    | replayTake sys idx => exact ctl_doReplayTake hc hst
    | replayLoop sys r kept idx => exact ctl_doReplayLoop hc hst
    | finish sys idx => exact ctl_doFinish hc hst
    | _ => exact absurd rfl hin

theorem ctl_step (p : Prog) (h : Hist) {s s' : St} (hc : Ctl s) (hs : step p h s = some s') : Ctl s' := by
  unfold step at hs
  split at hs
  · cases hs
  · rename_i f rest hst
    simp only [Option.some.injEq] at hs
    subst hs
    exact ctl_runFrame p h hc hst

end Cobweb

namespace Cobweb

theorem benignP_startTop (s : St) (t : Nat) (op : TopOp) : BenignP s (startTop s t op) := by
  unfold startTop
  have he : BenignS s (s.emit (.top t)) := (same_emit _ _).benignS
  cases op <;> dsimp only
  case acts => exact benignP_push he _ (inert_one rfl)
  case wDespawn e => exact (he.trans (benignS_despawn1 _ _)).toP
  case wDespawnRec e => exact benignP_push he _ (inert_one rfl)
  case wRemove e ty => exact BenignP.trans_S he (benignP_applyCmd _ _)
  case wInsertRaw e ty v => exact BenignP.trans_S he (benignP_applyCmd _ _)
  case wSetParent c p =>
    split
    · refine BenignS.toP (he.trans (Same.benignS ?_)); same_rfl
    · exact he.toP
  case gc => exact benignP_push he _ (inert_one rfl)
  case poll => exact benignP_push he _ (inert_one rfl)
  case frameEnd => exact benignP_push he _ (inert2 rfl rfl)
  case clearTrackers => refine BenignS.toP (he.trans (Same.benignS ?_)); unfold clearTrackers; same_rfl
  case wSysEvent sys ty pid =>
    refine BenignP.trans_S (he.trans ((same_emit _ (.send pid)).benignS.trans ((benignS_fresh _).trans (Same.benignS ?_)))) (benignP_applyCmd _ _)
    same_rfl
  case wBroadcast ty pid => exact BenignP.trans_S (he.trans (same_emit _ _).benignS) (benignP_applyCmd _ _)
  case wEntityEvent e ty pid => exact BenignP.trans_S (he.trans (same_emit _ _).benignS) (benignP_applyCmd _ _)
  case sigPrepare e =>
    refine BenignS.toP (he.trans ((same_newArc _ e).benignS.trans (Same.benignS ?_))); same_rfl
  case sigClone a =>
    split
    · exact (he.trans (same_cloneHandle _ _).benignS).toP
    · exact he.toP
  case sigDrop a =>
    split
    · exact (he.trans (same_dropHandle _ _).benignS).toP
    · exact he.toP
  case sigThreads a n => exact benignP_push he _ (inert_one rfl)

theorem ctl_tick (p : Prog) (h : Hist) {s s' : St} (hc : Ctl s) (ht : tick p h s = some s') : Ctl s' := by
  unfold tick at ht
  split at ht
  · rename_i s'' hs
    simp only [Option.some.injEq] at ht; subst ht
    exact ctl_step p h hc hs
  · split at ht
    · rename_i op _
      simp only [Option.some.injEq] at ht; subst ht
      have hc' : Ctl { s with topIdx := s.topIdx + 1 } :=
        ⟨hc.fresh, hc.takenAlive, hc.takenRunning, hc.runningTaken, hc.runningOld, hc.nodup, hc.counter, hc.stackOK, hc.buffered⟩
      exact ctl_benignP hc' (benignP_startTop _ _ op)
    · cases ht

theorem ctl_reach (p : Prog) (h : Hist) {s0 s : St} (hc : Ctl s0) (hr : Reach p h s0 s) : Ctl s := by
  induction hr with
  | refl => exact hc
  | tick _ ht ih => exact ctl_tick p h ih ht

theorem ctl_default : Ctl ({} : St) := by
  constructor <;> intros <;> simp_all [running, waiting, hasActive, StackOK]

end Cobweb
