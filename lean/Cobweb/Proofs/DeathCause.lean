/-
  Cobweb.Proofs.DeathCause — an entity dies only for a reason: the step applies a `despawn` command naming it, the despawn
  work list (recursive despawn, the collector, a runner dropping a system without storage) reaches it, it is a one-off
  reactor finishing its run, the user despawns it directly — or it is the data entity of an event and a clean-up releases it.
  Nothing else in the framework (registration, revocation, dispatch, polls, replays, clean-up of other entities) kills.
-/
import Cobweb.Proofs.Kill
import Cobweb.Proofs.Frames
import Cobweb.Exec

namespace Cobweb

theorem despawn1_alive_other (s : St) (e x : Nat) (h : x ≠ e) : (despawn1 s e).alive x = s.alive x := by
  unfold despawn1; split
  · exact kill_alive_other s e x h
  · rfl

theorem tryCleanupData_alive_other (s : St) (d x : Nat) (h : x ≠ d) : (tryCleanupData s d).alive x = s.alive x := by
  unfold tryCleanupData
  split
  · split
    · split
      · rfl
      · dsimp only
        split
        · rw [kill_alive_other _ d x h]
        · rfl
    · rfl
  · rfl

/-- A clean-up kills at most the event data entity the trackers name. -/
theorem cleanupK_alive_other (s : St) (k : Kind) (x : Nat) (h1 : x ≠ s.trkSys.cur) (h2 : x ≠ s.trkEvt.cur) :
    (cleanupK s k).alive x = s.alive x := by
  cases k <;> simp only [cleanupK]
  case sysEv d => rw [despawn1_alive_other _ _ _ h1]
  case dspReact a b => split <;> simp
  case entEv a b => rw [tryCleanupData_alive_other _ _ _ h2]
  case bcEv a => rw [tryCleanupData_alive_other _ _ _ h2]

theorem fresh_alive_mono (s : St) (x : Nat) (h : s.alive x = true) : s.fresh.2.alive x = true := by
  simp only [St.fresh, upd]; split <;> simp [h]

theorem enqueue_alive_mono (s : St) (a : Act) (x : Nat) (h : s.alive x = true) : (enqueue s a).1.alive x = true := by
  cases a <;> simp only [enqueue] <;> (repeat' split) <;> first | exact h | (simp [St.fresh, upd, h]; try (split <;> simp [h]))

/-- Applying a command kills `x` only if the command is `despawn x`, or a clean-up releasing the event data the trackers name. -/
theorem applyCmd_death (s : St) (c : Cmd) (x : Nat) (ha : s.alive x = true) (hd : (applyCmd s c).alive x = false) :
    c = .despawn x ∨ ((∃ k, c = .cleanup k) ∧ (x = s.trkSys.cur ∨ x = s.trkEvt.cur)) := by
  cases c <;> simp only [applyCmd] at hd ⊢
  case despawn e =>
    by_cases hx : x = e
    · subst hx; exact Or.inl rfl
    · rw [despawn1_alive_other _ _ _ hx, ha] at hd; cases hd
  case cleanup k =>
    by_cases h1 : x = s.trkSys.cur
    · exact Or.inr ⟨⟨k, rfl⟩, Or.inl h1⟩
    · by_cases h2 : x = s.trkEvt.cur
      · exact Or.inr ⟨⟨k, rfl⟩, Or.inr h2⟩
      · rw [cleanupK_alive_other _ _ _ h1 h2, ha] at hd; cases hd
  all_goals (exfalso; revert hd; (repeat' split) <;> simp [St.push, St.emit, St.fresh, upd, ha] <;> (try (split <;> simp [ha])))

/-- The event data entity a command kind carries. -/
def Kind.data? : Kind → Option Nat
  | .sysEv d => some d
  | .entEv _ d => some d
  | .bcEv d => some d
  | _ => none

theorem setupK_sysCur (s : St) (k : Kind) (sys : Nat) :
    (setupK s k sys).trkSys.cur = s.trkSys.cur ∨ k.data? = some (setupK s k sys).trkSys.cur := by
  cases k <;> simp only [setupK, Kind.data?]
  all_goals first
    | exact Or.inl trivial
    | exact Or.inl rfl
    | (simp only [TrkData.start]; split <;> simp)
    | (split <;> simp)

theorem setupK_evtCur (s : St) (k : Kind) (sys : Nat) :
    (setupK s k sys).trkEvt.cur = s.trkEvt.cur ∨ k.data? = some (setupK s k sys).trkEvt.cur := by
  cases k <;> simp only [setupK, Kind.data?]
  all_goals first
    | exact Or.inl trivial
    | exact Or.inl rfl
    | (simp only [TrkData.start]; split <;> simp)
    | (split <;> simp)

/-- **Every frame**: it kills `x` only if it applies `despawn x`, is the despawn work reaching `x`, or is the tail of the
    one-off reactor `x` — unless `x` is event data named by a tracker (or by the aborting command), which a clean-up releases. -/
theorem runFrame_death (p : Prog) (h : Hist) (s : St) (f : Frame) (x : Nat) (ha : s.alive x = true)
    (hd : (runFrame p h s f).alive x = false) (h1 : x ≠ s.trkSys.cur) (h2 : x ≠ s.trkEvt.cur)
    (h3 : ∀ sys k, f = .abort sys k → k.data? ≠ some x) :
    (∃ cs, f = .batch (.despawn x :: cs)) ∨ (∃ w, f = .despawnWork ((x, true) :: w)) ∨ f = .onceTail x := by
  cases f <;> simp only [runFrame] at hd
  case batch cs =>
    cases cs with
    | nil => simp only [doBatch] at hd; rw [ha] at hd; cases hd
    | cons c cs =>
      simp only [doBatch] at hd
      rcases applyCmd_death _ c x (by simpa [St.push] using ha) hd with hc | ⟨_, hc⟩
      · subst hc; exact Or.inl ⟨cs, rfl⟩
      · rcases hc with hc | hc
        · exact absurd hc h1
        · exact absurd hc h2
  case flush => rw [doFlush_alive, ha] at hd; cases hd
  case bodyActs sys k i acc =>
    exfalso; revert hd; unfold doBodyActs
    split
    · simp [St.push, St.emit, ha]
    · simp [St.push, enqueue_alive_mono _ _ _ ha]
  case exclActs sys i =>
    exfalso; revert hd; unfold doExclActs
    split
    · simp [St.push, St.emit, ha]
    · simp [St.push, ha]
    · simp [St.push, enqueue_alive_mono _ _ _ ha]
  case topActs t i =>
    exfalso; revert hd; unfold doTopActs
    split
    · simp [St.push, ha]
    · simp [St.push, enqueue_alive_mono _ _ _ ha]
  case cleanup k => rw [cleanupK_alive_other _ _ _ h1 h2, ha] at hd; cases hd
  case onceTail sys =>
    by_cases hx : x = sys
    · subst hx; exact Or.inr (Or.inr rfl)
    · exfalso; revert hd; simp [doOnceTail, St.push, despawn1_alive_other _ _ _ hx, ha]
  case runnerStart sys k => rw [doRunnerStart_alive, ha] at hd; cases hd
  case runnerLookup sys k idx => rw [doRunnerLookup_alive, ha] at hd; cases hd
  case afterBody sys idx => rw [doAfterBody_alive, ha] at hd; cases hd
  case dropCallback sys => simp [St.emit, ha] at hd
  case reinsert sys idx => rw [doReinsert_alive, ha] at hd; cases hd
  case replayTake sys idx => rw [doReplayTake_alive, ha] at hd; cases hd
  case replayLoop sys r kept idx => rw [doReplayLoop_alive, ha] at hd; cases hd
  case finish sys idx => rw [doFinish_alive, ha] at hd; cases hd
  case abort sys k =>
    exfalso
    have e1 : x ≠ (setupK s k sys).trkSys.cur := by
      rcases setupK_sysCur s k sys with e | e
      · rw [e]; exact h1
      · intro hx; exact h3 sys k rfl (by rw [e, hx])
    have e2 : x ≠ (setupK s k sys).trkEvt.cur := by
      rcases setupK_evtCur s k sys with e | e
      · rw [e]; exact h2
      · intro hx; exact h3 sys k rfl (by rw [e, hx])
    rw [cleanupK_alive_other _ _ _ e1 e2, setupK_alive, ha] at hd; cases hd
  case gc => rw [doGc_alive, ha] at hd; cases hd
  case despawnWork work =>
    revert hd; unfold doDespawnWork
    split
    · intro hd; rw [ha] at hd; cases hd
    · rename_i e expanded w
      split
      · split
        · intro hd
          by_cases hx : x = e
          · subst hx
            rename_i hexp _
            subst hexp
            exact Or.inr (Or.inl ⟨w, rfl⟩)
          · exfalso; revert hd; simp [St.push, despawn1_alive_other _ _ _ hx, ha]
        · simp [St.push, ha]
      · split <;> simp [St.push, ha]
  case poll => rw [doPoll_alive, ha] at hd; cases hd

theorem startTop_death (s : St) (t : Nat) (op : TopOp) (x : Nat) (ha : s.alive x = true)
    (hd : (startTop s t op).alive x = false) : op = .wDespawn x := by
  unfold startTop at hd
  cases op <;> dsimp only at hd
  case wDespawn e =>
    by_cases hx : x = e
    · subst hx; rfl
    · rw [despawn1_alive_other _ _ _ hx] at hd; simp [St.emit, ha] at hd
  case wRemove e ty =>
    rcases applyCmd_death _ _ x (by simpa [St.emit] using ha) hd with hc | ⟨⟨k, hc⟩, _⟩ <;> cases hc
  case wInsertRaw e ty v =>
    rcases applyCmd_death _ _ x (by simpa [St.emit] using ha) hd with hc | ⟨⟨k, hc⟩, _⟩ <;> cases hc
  case wSysEvent sys ty pid =>
    rcases applyCmd_death _ _ x (by simpa [St.emit] using fresh_alive_mono _ x (by simpa [St.emit] using ha)) hd
      with hc | ⟨⟨k, hc⟩, _⟩ <;> cases hc
  case wBroadcast ty pid =>
    rcases applyCmd_death _ _ x (by simpa [St.emit] using ha) hd with hc | ⟨⟨k, hc⟩, _⟩ <;> cases hc
  case wEntityEvent e ty pid =>
    rcases applyCmd_death _ _ x (by simpa [St.emit] using ha) hd with hc | ⟨⟨k, hc⟩, _⟩ <;> cases hc
  all_goals (exfalso; revert hd; (try split) <;> simp [St.push, St.emit, newArc, ha])

/-- **Every tick of every execution**: an entity that is not event data named by a tracker (or by an aborting command) dies
    only in a tick that applies `despawn x`, whose despawn work reaches `x`, that runs the tail of the one-off reactor `x`,
    or that starts the user's direct `World::despawn(x)`. -/
theorem tick_death (p : Prog) (h : Hist) {s s' : St} (ht : tick p h s = some s') (x : Nat) (ha : s.alive x = true)
    (hd : s'.alive x = false) (h1 : x ≠ s.trkSys.cur) (h2 : x ≠ s.trkEvt.cur)
    (h3 : ∀ sys k rest, s.stack = .abort sys k :: rest → k.data? ≠ some x) :
    (∃ cs rest, s.stack = .batch (.despawn x :: cs) :: rest) ∨ (∃ w rest, s.stack = .despawnWork ((x, true) :: w) :: rest) ∨
    (∃ rest, s.stack = .onceTail x :: rest) ∨ (s.stack = [] ∧ h.op s.topIdx s = some (.wDespawn x)) := by
  unfold tick at ht
  split at ht
  · rename_i s'' hs
    simp only [Option.some.injEq] at ht; subst ht
    unfold step at hs
    split at hs
    · cases hs
    · rename_i f rest hst
      simp only [Option.some.injEq] at hs; subst hs
      rcases runFrame_death p h { s with stack := rest } f x ha hd h1 h2 (fun sys k hf => h3 sys k rest (by rw [hst, hf]))
        with ⟨cs, hf⟩ | ⟨w, hf⟩ | hf
      · exact Or.inl ⟨cs, rest, by rw [hst, hf]⟩
      · exact Or.inr (Or.inl ⟨w, rest, by rw [hst, hf]⟩)
      · exact Or.inr (Or.inr (Or.inl ⟨rest, by rw [hst, hf]⟩))
  · rename_i hnone
    have h0 : s.stack = [] := by
      unfold step at hnone
      split at hnone
      · assumption
      · cases hnone
    split at ht
    · rename_i op hop
      simp only [Option.some.injEq] at ht; subst ht
      have := startTop_death ({ s with topIdx := s.topIdx + 1 } : St) s.topIdx op x ha hd
      subst this
      exact Or.inr (Or.inr (Or.inr ⟨h0, hop⟩))
    · cases ht

end Cobweb
