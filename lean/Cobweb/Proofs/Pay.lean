/-
  Cobweb.Proofs.Pay — payload accounting (C05, all three event kinds): along every execution and for every payload id,

      #sent = #dropped + #(payloads still carried by a queued command) + #(payloads stored, untaken, on a data entity).

  So no payload is dropped twice or lost, and at quiescence — no queued command, no event data (`no_data_at_quiescence`)
  — every payload that was sent has been dropped exactly once.
-/
import Cobweb.Proofs.SysLive
import Cobweb.Proofs.ArcCount

namespace Cobweb

/-- Occurrences in the ghost trace. -/
def nS (pid : Nat) (s : St) : Nat := s.trace.count (Ev.send pid)
def nD (pid : Nat) (s : St) : Nat := s.trace.count (Ev.dropPayload pid)

/-- A stored or carried payload with this id that nobody took. -/
def payP (pid : Nat) (x : DataEnt) : Nat := if x.pid = pid ∧ x.taken = false then 1 else 0

def optP (pid : Nat) : Option DataEnt → Nat
  | some x => payP pid x
  | none => 0

/-- Payloads on data entities. -/
def dataP (pid : Nat) (s : St) : Nat := sumTo s.nextEnt (fun d => optP pid (s.data d))

/-- Payloads inside queued commands. -/
def cmdP (pid : Nat) : Cmd → Nat
  | .spawnData _ x => payP pid x
  | .broadcast _ p => if p = pid then 1 else 0
  | .entityEvent _ _ p => if p = pid then 1 else 0
  | _ => 0

def listP (pid : Nat) (cs : List Cmd) : Nat := (cs.map (cmdP pid)).sum

@[simp] theorem listP_nil (pid : Nat) : listP pid [] = 0 := rfl
@[simp] theorem listP_cons (pid : Nat) (c : Cmd) (cs : List Cmd) : listP pid (c :: cs) = cmdP pid c + listP pid cs := by simp [listP]
@[simp] theorem listP_append (pid : Nat) (a b : List Cmd) : listP pid (a ++ b) = listP pid a + listP pid b := by simp [listP]

def frameP (pid : Nat) : Frame → Nat
  | .batch cs => listP pid cs
  | .bodyActs _ _ _ acc => listP pid acc
  | _ => 0

def queueP (pid : Nat) (s : St) : Nat := listP pid s.wq + sumF (frameP pid) s.stack

/-- Everything that accounts for a sent payload. -/
def Phi (pid : Nat) (s : St) : Nat := nD pid s + queueP pid s + dataP pid s

/-- Data lives below `nextEnt`. -/
def DataOld (s : St) : Prop := ∀ d, s.nextEnt ≤ d → s.data d = none

theorem nS_emit (pid : Nat) (s : St) (e : Ev) : nS pid (s.emit e) = nS pid s + (if e = Ev.send pid then 1 else 0) := by
  simp only [nS, St.emit, List.count_cons]
  by_cases h : e = Ev.send pid <;> simp [h]

theorem nD_emit (pid : Nat) (s : St) (e : Ev) : nD pid (s.emit e) = nD pid s + (if e = Ev.dropPayload pid then 1 else 0) := by
  simp only [nD, St.emit, List.count_cons]
  by_cases h : e = Ev.dropPayload pid <;> simp [h]

theorem nS_of_trace {s s' : St} (pid : Nat) (h : s'.trace = s.trace) : nS pid s' = nS pid s := by simp [nS, h]
theorem nD_of_trace {s s' : St} (pid : Nat) (h : s'.trace = s.trace) : nD pid s' = nD pid s := by simp [nD, h]

theorem dataP_of_eq {s s' : St} (pid : Nat) (h1 : s'.data = s.data) (h2 : s'.nextEnt = s.nextEnt) : dataP pid s' = dataP pid s := by
  simp [dataP, h1, h2]

/-- Changing the data of one entity below `nextEnt`. -/
theorem dataP_update (pid : Nat) (s : St) (d : Nat) (v : Option DataEnt) (hd : d < s.nextEnt) :
    dataP pid ({ s with data := upd s.data d v } : St) + optP pid (s.data d) = dataP pid s + optP pid v := by
  have := sumTo_update (n := s.nextEnt) (fun x => optP pid (s.data x)) (fun x => optP pid (upd s.data d v x)) d hd
    (fun j hj => by simp [upd, hj])
  simp only [dataP, upd_same] at this ⊢
  omega

/-- ... at or beyond `nextEnt` nothing is counted. -/
theorem dataP_update_beyond (pid : Nat) (s : St) (d : Nat) (v : Option DataEnt) (hd : s.nextEnt ≤ d) :
    dataP pid ({ s with data := upd s.data d v } : St) = dataP pid s := by
  simp only [dataP]
  exact sumTo_congr (fun k hk => by simp [upd, show k ≠ d by omega])

/-- The data-level effect of a helper: trace sends untouched, `nD + dataP` constant, queues and `nextEnt` untouched. -/
structure DStep (s s' : St) : Prop where
  sends : ∀ pid, nS pid s' = nS pid s
  bal : ∀ pid, nD pid s' + dataP pid s' = nD pid s + dataP pid s
  wq : s'.wq = s.wq
  stack : s'.stack = s.stack
  next : s'.nextEnt = s.nextEnt
  old : DataOld s → DataOld s'
  some : ∀ d, (s'.data d).isSome = true → (s.data d).isSome = true

theorem DStep.refl (s : St) : DStep s s := ⟨fun _ => rfl, fun _ => rfl, rfl, rfl, rfl, id, fun _ h => h⟩

theorem DStep.trans {a b c : St} (h1 : DStep a b) (h2 : DStep b c) : DStep a c :=
  ⟨fun pid => (h2.sends pid).trans (h1.sends pid), fun pid => (h2.bal pid).trans (h1.bal pid), h2.wq.trans h1.wq,
   h2.stack.trans h1.stack, h2.next.trans h1.next, fun h => h2.old (h1.old h), fun d h => h1.some d (h2.some d h)⟩

/-- Fields the accounting reads are the same. -/
theorem DStep.of_same {s s' : St} (h1 : s'.trace = s.trace) (h2 : s'.data = s.data) (h3 : s'.wq = s.wq) (h4 : s'.stack = s.stack)
    (h5 : s'.nextEnt = s.nextEnt) : DStep s s' :=
  ⟨fun pid => nS_of_trace pid h1, fun pid => by rw [nD_of_trace pid h1, dataP_of_eq pid h2 h5], h3, h4, h5,
   fun h d hd => by rw [h2]; exact h d (by rw [← h5]; exact hd), fun d h => by rw [h2] at h; exact h⟩

/-- An emitted event that is neither a send nor a drop. -/
theorem canaryEv_ne_send (s : St) (e pid : Nat) : canaryEv s e ≠ Ev.send pid := by
  unfold canaryEv; split <;> (intro h; cases h)
theorem canaryEv_ne_drop (s : St) (e pid : Nat) : canaryEv s e ≠ Ev.dropPayload pid := by
  unfold canaryEv; split <;> (intro h; cases h)
@[simp] theorem canaryEv_beq_send (s : St) (e pid : Nat) : (canaryEv s e == Ev.send pid) = false := by
  simp [canaryEv_ne_send]
@[simp] theorem canaryEv_beq_drop (s : St) (e pid : Nat) : (canaryEv s e == Ev.dropPayload pid) = false := by
  simp [canaryEv_ne_drop]

theorem DStep.emit_other (s : St) (e : Ev) (h1 : ∀ pid, e ≠ Ev.send pid) (h2 : ∀ pid, e ≠ Ev.dropPayload pid) : DStep s (s.emit e) :=
  ⟨fun pid => by rw [nS_emit]; simp [h1 pid],
   fun pid => by rw [nD_emit, dataP_of_eq (s := s) (s' := s.emit e) pid rfl rfl]; simp [h2 pid], rfl, rfl, rfl, id, fun _ h => h⟩

theorem dstep_killData (s : St) (e : Nat) (hold : DataOld s) : DStep s (killData s e) := by
  unfold killData
  cases hd : s.data e with
  | none => exact DStep.refl s
  | some x =>
    dsimp only
    have hlt : e < s.nextEnt := by
      by_cases h : e < s.nextEnt
      · exact h
      · have := hold e (by omega); rw [hd] at this; cases this
    have hupd := fun pid => dataP_update pid s e none hlt
    have holdk : DataOld s → DataOld ({ s with data := upd s.data e none } : St) := by
      intro h d hdd; simp only [upd]; split
      · rfl
      · exact h d hdd
    have hsomek : ∀ d, (upd s.data e none d).isSome = true → (s.data d).isSome = true := by
      intro d h; simp only [upd] at h; split at h
      · cases h
      · exact h
    split
    · -- taken: the payload was dropped by its taker
      rename_i ht
      refine ⟨fun _ => rfl, fun pid => ?_, rfl, rfl, rfl, holdk, hsomek⟩
      have := hupd pid
      simp only [hd, optP, payP, ht] at this
      simp only [nD] at *
      show List.count _ s.trace + _ = _
      simp at this; omega
    · rename_i ht
      have ht' : x.taken = false := by simpa using ht
      refine ⟨fun pid => by rw [nS_emit]; simp [nS], fun pid => ?_, rfl, rfl, rfl, holdk, hsomek⟩
      have := hupd pid
      rw [nD_emit]
      have e1 : dataP pid (({ s with data := upd s.data e none } : St).emit (Ev.dropPayload x.pid)) =
          dataP pid ({ s with data := upd s.data e none } : St) := dataP_of_eq pid rfl rfl
      rw [e1]
      have e2 : nD pid ({ s with data := upd s.data e none } : St) = nD pid s := nD_of_trace pid rfl
      rw [e2]
      simp only [hd, optP, payP, ht'] at this
      by_cases hp : x.pid = pid
      · simp [hp] at this ⊢; omega
      · have hp' : ¬ Ev.dropPayload x.pid = Ev.dropPayload pid := by intro h; cases h; exact hp rfl
        simp [hp, hp'] at this ⊢; omega

theorem dstep_kill (s : St) (e : Nat) (hold : DataOld s) : DStep s (kill s e) := by
  have h0 : DStep s (killCanary s e) := by
    unfold killCanary; split
    · exact DStep.emit_other s _ (fun pid => canaryEv_ne_send s e pid) (fun pid => canaryEv_ne_drop s e pid)
    · exact DStep.refl s
  have h1 : DStep (killCanary s e) (killTracker (killComps (killReactors (killStorage (killCanary s e) e) e) e) e) :=
    DStep.of_same (by simp) (by simp) (by simp) (by simp) (by simp)
  have h01 := h0.trans h1
  have h2 := dstep_killData (killTracker (killComps (killReactors (killStorage (killCanary s e) e) e) e) e) e (h01.old hold)
  have h3 : DStep (killData (killTracker (killComps (killReactors (killStorage (killCanary s e) e) e) e) e) e) (kill s e) :=
    DStep.of_same rfl rfl rfl rfl rfl
  exact (h01.trans h2).trans h3

theorem dstep_despawn1 (s : St) (e : Nat) (hold : DataOld s) : DStep s (despawn1 s e) := by
  unfold despawn1; split
  · exact dstep_kill s e hold
  · exact DStep.refl s

end Cobweb

namespace Cobweb

theorem dstep_tryCleanupData (s : St) (d0 : Nat) (hold : DataOld s) : DStep s (tryCleanupData s d0) := by
  unfold tryCleanupData
  split
  · split
    · rename_i x hx
      split
      · exact DStep.refl s
      · dsimp only
        have hlt : d0 < s.nextEnt := by
          by_cases h : d0 < s.nextEnt
          · exact h
          · have := hold d0 (by omega); rw [hx] at this; cases this
        have h1 : DStep s ({ s with data := upd s.data d0 (some { x with cnt := x.cnt - 1 }) } : St) := by
          refine ⟨fun _ => rfl, fun pid => ?_, rfl, rfl, rfl, ?_, ?_⟩
          rotate_right
          · intro d h
            by_cases hdd : d = d0
            · subst hdd; rw [hx]; rfl
            · have : upd s.data d0 (some { x with cnt := x.cnt - 1 }) d = s.data d := by simp [upd, hdd]
              rw [← this]; exact h
          · have := dataP_update pid s d0 (some { x with cnt := x.cnt - 1 }) hlt
            simp only [hx, optP, payP] at this
            show nD pid s + _ = _
            omega
          · intro h d hd
            have hd' : s.nextEnt ≤ d := hd
            show upd s.data d0 _ d = none
            simp only [upd]; split
            · rename_i hdd; omega
            · exact h d hd'
        split
        · exact h1.trans (dstep_kill _ d0 (h1.old hold))
        · exact h1
    · exact DStep.refl s
  · exact DStep.refl s

/-- A change of fields the accounting does not read, then a step. -/
theorem DStep.after {s1 s2 : St} (h : DStep s1 s2) {s : St} (h1 : s1.trace = s.trace) (h2 : s1.data = s.data) (h3 : s1.wq = s.wq)
    (h4 : s1.stack = s.stack) (h5 : s1.nextEnt = s.nextEnt) : DStep s s2 := (DStep.of_same h1 h2 h3 h4 h5).trans h

theorem dstep_cleanupK (s : St) (k : Kind) (hold : DataOld s) : DStep s (cleanupK s k) := by
  cases k <;> simp only [cleanupK]
  · exact DStep.refl s
  · exact (dstep_despawn1 ({ s with trkSys := { s.trkSys with reacting := false } } : St) _ hold).after rfl rfl rfl rfl rfl
  · exact DStep.of_same rfl rfl rfl rfl rfl
  · split <;> exact DStep.of_same (by simp) (by simp) (by simp) (by simp) (by simp)
  · exact (dstep_tryCleanupData ({ s with trkEnt := { s.trkEnt with reacting := false }, trkEvt := { s.trkEvt with reacting := false } } : St)
      _ hold).after rfl rfl rfl rfl rfl
  · exact (dstep_tryCleanupData ({ s with trkEvt := { s.trkEvt with reacting := false } } : St) _ hold).after rfl rfl rfl rfl rfl

theorem dstep_setupK (s : St) (k : Kind) (sys : Nat) : DStep s (setupK s k sys) :=
  DStep.of_same (by simp) (by simp) (by simp) (by simp) (by simp)

theorem foldl_drop_nS (pid : Nat) (l : List Nat) (t : St) :
    nS pid (l.foldl (fun (s : St) q => s.emit (Ev.dropPayload q)) t) = nS pid t := by
  induction l generalizing t with
  | nil => rfl
  | cons x l ih => rw [List.foldl_cons, ih, nS_emit]; simp

theorem foldl_drop_nD (pid : Nat) (l : List Nat) (t : St) :
    nD pid (l.foldl (fun (s : St) q => s.emit (Ev.dropPayload q)) t) = nD pid t + l.count pid := by
  induction l generalizing t with
  | nil => simp
  | cons x l ih =>
    rw [List.foldl_cons, ih, nD_emit, List.count_cons]
    by_cases h : x = pid
    · subst h; simp; omega
    · have : ¬ Ev.dropPayload x = Ev.dropPayload pid := by intro h'; cases h'; exact h rfl
      simp [h, this]

theorem foldl_drop_fields (l : List Nat) (t : St) :
    (l.foldl (fun (s : St) q => s.emit (Ev.dropPayload q)) t).data = t.data ∧
    (l.foldl (fun (s : St) q => s.emit (Ev.dropPayload q)) t).nextEnt = t.nextEnt ∧
    (l.foldl (fun (s : St) q => s.emit (Ev.dropPayload q)) t).wq = t.wq ∧
    (l.foldl (fun (s : St) q => s.emit (Ev.dropPayload q)) t).stack = t.stack := by
  induction l generalizing t with
  | nil => exact ⟨rfl, rfl, rfl, rfl⟩
  | cons x l ih => rw [List.foldl_cons]; exact ih _

/-- The first statement of a body: the system event's payload, if the run reads one, is taken and dropped at once. -/
theorem dstep_take (t : St) (w : Option Nat) (i : Nat → SysInfo) (ev : Ev) (hs : ∀ pid, ev ≠ Ev.send pid) (hd : ∀ pid, ev ≠ Ev.dropPayload pid)
    (hold : DataOld t) :
    DStep t (((observe t w).1.sysEv.filterMap id).foldl (fun (s : St) q => s.emit (Ev.dropPayload q))
      (({ (observe t w).2 with info := i } : St).emit ev)) := by
  obtain ⟨f1, f2, f3, f4⟩ := foldl_drop_fields ((observe t w).1.sysEv.filterMap id) (({ (observe t w).2 with info := i } : St).emit ev)
  -- the two shapes of `observe`
  have key : ((observe t w).2.data = t.data ∧ (observe t w).1.sysEv.filterMap id = []) ∨
      (∃ x, t.data t.trkSys.cur = some x ∧ t.trkSys.cur < t.nextEnt ∧
        (observe t w).2.data = upd t.data t.trkSys.cur (some { x with taken := true }) ∧
        (observe t w).1.sysEv.filterMap id = (if x.taken then [] else [x.pid])) := by
    unfold observe
    dsimp only
    by_cases hr : t.trkSys.reacting = true
    · cases hx : t.data t.trkSys.cur with
      | none => left; simp [hr, hx, readData, numTy, List.range_succ]
      | some x =>
        by_cases hc : x.kind = .sys ∧ t.alive t.trkSys.cur = true ∧ x.ty < numTy
        · right
          have hlt : t.trkSys.cur < t.nextEnt := by
            by_cases h : t.trkSys.cur < t.nextEnt
            · exact h
            · have := hold t.trkSys.cur (by omega); rw [hx] at this; cases this
          refine ⟨x, rfl, hlt, by simp [hr, hx, hc], ?_⟩
          have hty : x.ty = 0 ∨ x.ty = 1 := by have := hc.2.2; simp only [numTy] at this; omega
          rcases hty with h0 | h0 <;> cases hk : x.taken <;> simp [hr, hx, readData, numTy, List.range_succ, hc.1, hc.2.1, h0, hk]
        · left
          refine ⟨by simp [hr, hx, hc], ?_⟩
          have : ¬(x.kind = .sys ∧ t.alive t.trkSys.cur = true) ∨ ¬ x.ty < numTy := by
            by_cases h1 : x.kind = .sys ∧ t.alive t.trkSys.cur = true
            · exact Or.inr (fun h2 => hc ⟨h1.1, h1.2, h2⟩)
            · exact Or.inl h1
          rcases this with h1 | h1
          · by_cases hk : x.kind = .sys
            · have ha : t.alive t.trkSys.cur = false := by
                cases h : t.alive t.trkSys.cur with
                | false => rfl
                | true => exact absurd ⟨hk, h⟩ h1
              simp [hr, hx, readData, numTy, List.range_succ, ha]
            · simp [hr, hx, readData, numTy, List.range_succ, hk]
          · have h2 : x.ty ≠ 0 ∧ x.ty ≠ 1 := by simp only [numTy] at h1; omega
            simp [hr, hx, readData, numTy, List.range_succ, h2.1, h2.2]
    · left
      have hr' : t.trkSys.reacting = false := by simpa using hr
      simp [hr', readData, numTy, List.range_succ]
  have hnext : (observe t w).2.nextEnt = t.nextEnt := by simp
  have hwq : (observe t w).2.wq = t.wq := by simp
  have hstk : (observe t w).2.stack = t.stack := by simp
  have htr : (observe t w).2.trace = t.trace := by simp
  have hfn : (((observe t w).1.sysEv.filterMap id).foldl (fun (s : St) q => s.emit (Ev.dropPayload q))
      (({ (observe t w).2 with info := i } : St).emit ev)).nextEnt = t.nextEnt := by rw [f2]; simpa [St.emit] using hnext
  have hfw : (((observe t w).1.sysEv.filterMap id).foldl (fun (s : St) q => s.emit (Ev.dropPayload q))
      (({ (observe t w).2 with info := i } : St).emit ev)).wq = t.wq := by rw [f3]; simpa [St.emit] using hwq
  have hfs : (((observe t w).1.sysEv.filterMap id).foldl (fun (s : St) q => s.emit (Ev.dropPayload q))
      (({ (observe t w).2 with info := i } : St).emit ev)).stack = t.stack := by rw [f4]; simpa [St.emit] using hstk
  have hfd : (((observe t w).1.sysEv.filterMap id).foldl (fun (s : St) q => s.emit (Ev.dropPayload q))
      (({ (observe t w).2 with info := i } : St).emit ev)).data = (observe t w).2.data := by rw [f1]; rfl
  refine ⟨fun pid => ?_, fun pid => ?_, hfw, hfs, hfn, ?_, ?_⟩
  rotate_right
  · intro d h
    rw [hfd] at h
    rcases key with ⟨k1, _⟩ | ⟨x, hx, hlt, k1, _⟩
    · rw [k1] at h; exact h
    · rw [k1] at h
      by_cases hdd : d = t.trkSys.cur
      · subst hdd; rw [hx]; rfl
      · simpa [upd, hdd] using h
  · rw [foldl_drop_nS, nS_emit]; simp [hs pid, nS, htr]
  · rw [foldl_drop_nD, nD_emit]
    have e0 : nD pid ({ (observe t w).2 with info := i } : St) = nD pid t := by simp [nD, htr]
    have e1 : dataP pid (((observe t w).1.sysEv.filterMap id).foldl (fun (s : St) q => s.emit (Ev.dropPayload q))
        (({ (observe t w).2 with info := i } : St).emit ev)) = sumTo t.nextEnt (fun d => optP pid ((observe t w).2.data d)) := by
      simp only [dataP, hfd, hfn]
    rw [e0, e1]
    simp only [hd pid, if_false, Nat.add_zero]
    rcases key with ⟨k1, k2⟩ | ⟨x, hx, hlt, k1, k2⟩
    · rw [k1, k2]; simp [dataP]
    · rw [k1, k2]
      have := dataP_update pid t t.trkSys.cur (some { x with taken := true }) hlt
      simp only [dataP, hx, optP, payP] at this ⊢
      cases hk : x.taken <;> simp [hk] at this ⊢
      · by_cases hp : x.pid = pid
        · simp [hp] at this ⊢; omega
        · have hp' : ¬ pid = x.pid := fun h => hp h.symm
          simp [hp, hp', List.count_cons] at this ⊢; omega
      · omega
  · intro h d hdd
    rw [hfn] at hdd
    rw [hfd]
    rcases key with ⟨k1, _⟩ | ⟨x, hx, hlt, k1, _⟩
    · rw [k1]; exact h d hdd
    · rw [k1]; simp only [upd]; split
      · rename_i hh; omega
      · exact h d hdd

theorem dstep_startBody (s : St) (sys : Nat) (k : Kind) (hold : DataOld s) : DStep s (startBody s sys k) := by
  have h1 : DStep s (preBody s sys k) := by
    unfold preBody
    dsimp only
    have ha := (dstep_setupK s k sys).trans (DStep.emit_other (setupK s k sys) (.enter sys) (fun _ h => by cases h) (fun _ h => by cases h))
    split
    · exact ha.trans (DStep.emit_other _ _ (fun _ h => by cases h) (fun _ h => by cases h))
    · exact (ha.trans (DStep.emit_other _ (.misclaim sys) (fun _ h => by cases h) (fun _ h => by cases h))).trans
        (DStep.emit_other _ _ (fun _ h => by cases h) (fun _ h => by cases h))
  unfold startBody
  exact h1.trans (dstep_take (preBody s sys k) _ _ _ (fun _ h => by cases h) (fun _ h => by cases h) (h1.old hold))

end Cobweb

namespace Cobweb

/-! ### weights of queued commands -/

def isPayloadCmd : Cmd → Bool
  | .spawnData _ _ => true
  | .broadcast _ _ => true
  | .entityEvent _ _ _ => true
  | _ => false

/-- A weight that only looks at the three payload-carrying commands. -/
def Light (w : Cmd → Nat) : Prop := ∀ c, isPayloadCmd c = false → w c = 0

def listW (w : Cmd → Nat) (cs : List Cmd) : Nat := (cs.map w).sum

@[simp] theorem listW_nil (w : Cmd → Nat) : listW w [] = 0 := rfl
@[simp] theorem listW_cons (w : Cmd → Nat) (c : Cmd) (cs : List Cmd) : listW w (c :: cs) = w c + listW w cs := by simp [listW]
@[simp] theorem listW_append (w : Cmd → Nat) (a b : List Cmd) : listW w (a ++ b) = listW w a + listW w b := by simp [listW]

def frameW (w : Cmd → Nat) (f : Frame) : Nat := listW w (frameCmds f)

/-- Total weight of the waiting commands. -/
def qW (w : Cmd → Nat) (s : St) : Nat := listW w s.wq + sumF (frameW w) s.stack

theorem listW_light {w : Cmd → Nat} (hL : Light w) (cs : List Cmd) (h : ∀ c ∈ cs, isPayloadCmd c = false) : listW w cs = 0 := by
  induction cs with
  | nil => rfl
  | cons c cs ih =>
    rw [listW_cons, hL c (h c List.mem_cons_self), ih (fun x hx => h x (List.mem_cons_of_mem _ hx))]

theorem listW_map_light {α : Type} {w : Cmd → Nat} (hL : Light w) (l : List α) (f : α → Cmd) (h : ∀ x, isPayloadCmd (f x) = false) :
    listW w (l.map f) = 0 :=
  listW_light hL _ (fun c hc => by obtain ⟨x, _, rfl⟩ := List.mem_map.mp hc; exact h x)

theorem regCmds_light (s : St) (h : Handle) (t : Trig) : ∀ c ∈ (regCmds s h t).2, isPayloadCmd c = false := by
  intro c hc
  cases t <;> simp only [regCmds, rtOfTrig, tblOfTrig] at hc <;> (try split at hc) <;> simp at hc <;>
    (first | (subst hc; rfl) | (rcases hc with rfl | rfl <;> rfl))

theorem regAll_light (s : St) (h : Handle) : ∀ (ts : List Trig), ∀ c ∈ (regAll s h ts).2, isPayloadCmd c = false := by
  intro ts
  induction ts generalizing s with
  | nil => intro c hc; cases hc
  | cons t ts ih =>
    intro c hc
    simp only [regAll, List.mem_append] at hc
    rcases hc with hc | hc
    · exact regCmds_light s h t c hc
    · exact ih _ c hc

theorem pollRem_light (s : St) : ∀ c ∈ (pollRemovals s).2, isPayloadCmd c = false := by
  unfold pollRemovals
  suffices h : ∀ (tys : List Nat) (acc : St × List Cmd), (∀ c ∈ acc.2, isPayloadCmd c = false) →
      ∀ c ∈ (tys.foldl pollRemStep acc).2, isPayloadCmd c = false from h _ _ (by simp)
  intro tys
  induction tys with
  | nil => intro acc h; exact h
  | cons ty tys ih =>
    intro acc h
    rw [List.foldl_cons]
    apply ih
    intro c hc
    simp only [pollRemStep, List.mem_append, List.mem_flatMap] at hc
    rcases hc with hc | ⟨e, _, hc⟩
    · exact h c hc
    · simp only [removalCmdsFor, List.mem_append, List.mem_map] at hc
      rcases hc with ⟨_, _, rfl⟩ | ⟨_, _, rfl⟩ <;> rfl

theorem pollDsp_light (s : St) : ∀ c ∈ (pollDespawns s).2, isPayloadCmd c = false := by
  unfold pollDespawns
  suffices h : ∀ (es : List Nat) (acc : St × List Cmd), (∀ c ∈ acc.2, isPayloadCmd c = false) →
      ∀ c ∈ (es.foldl pollDspStep acc).2, isPayloadCmd c = false from h _ _ (by simp)
  intro es
  induction es with
  | nil => intro acc h; exact h
  | cons e es ih =>
    intro acc h
    rw [List.foldl_cons]
    apply ih
    intro c hc
    simp only [pollDspStep, List.mem_append, List.mem_map] at hc
    rcases hc with hc | ⟨_, _, rfl⟩
    · exact h c hc
    · rfl

/-- Weight of the commands `applyCmd` creates: only a dispatch with listeners creates a payload command (the spawn of the
    data entity at the freshly reserved id). -/
def createdW (w : Cmd → Nat) (s : St) : Cmd → Nat
  | .broadcast ty pid =>
    let hs := s.tbl .bc ty
    if hs.isEmpty then 0
    else w (.spawnData s.nextEnt { kind := .bc, ty := ty, pid := pid, target := 0, cnt := hs.length, taken := false })
  | .entityEvent e ty pid =>
    let ls := entListeners s e ⟨.ev, ty⟩
    let hs := s.tbl .anyEv ty
    if ls.length + hs.length = 0 then 0
    else w (.spawnData s.nextEnt { kind := .ev, ty := ty, pid := pid, target := e, cnt := ls.length + hs.length, taken := false })
  | _ => 0

macro "qclose" : tactic => `(tactic| (simp [qW, St.push, St.emit, St.fresh, frameW, frameCmds, setTbl]; done))

theorem qW_applyCmd (w : Cmd → Nat) (hL : Light w) (s : St) (c : Cmd) : qW w (applyCmd s c) = qW w s + createdW w s c := by
  have hBc : ∀ d (l : List Handle), listW w (l.map (fun h => Cmd.reactBc d h.sys)) = 0 :=
    fun d l => listW_map_light hL l _ (fun _ => rfl)
  have hEv1 : ∀ e d (l : List Nat), listW w (l.map (fun r => Cmd.reactEv e d r)) = 0 :=
    fun e d l => listW_map_light hL l _ (fun _ => rfl)
  have hEv2 : ∀ e d (l : List Handle), listW w (l.map (fun h => Cmd.reactEv e d h.sys)) = 0 :=
    fun e d l => listW_map_light hL l _ (fun _ => rfl)
  have hRes : ∀ (l : List Handle), listW w (l.map (fun h => Cmd.reactRes h.sys)) = 0 :=
    fun l => listW_map_light hL l _ (fun _ => rfl)
  have hEnt1 : ∀ e rt (l : List Nat), listW w (l.map (fun r => Cmd.reactEnt e rt r)) = 0 :=
    fun e rt l => listW_map_light hL l _ (fun _ => rfl)
  have hEnt2 : ∀ e rt (l : List Handle), listW w (l.map (fun h => Cmd.reactEnt e rt h.sys)) = 0 :=
    fun e rt l => listW_map_light hL l _ (fun _ => rfl)
  cases c <;> simp only [applyCmd, createdW]
  case broadcast ty pid =>
    split
    · qclose
    · simp [qW, St.push, St.fresh, frameW, frameCmds, hBc, hEv1, hEv2, hRes, hEnt1, hEnt2]; omega
  case entityEvent e ty pid =>
    split
    · qclose
    · simp [qW, St.push, St.fresh, frameW, frameCmds, hBc, hEv1, hEv2, hRes, hEnt1, hEnt2]; omega
  case resMut ty => simp [qW, St.push, frameW, frameCmds, hBc, hEv1, hEv2, hRes, hEnt1, hEnt2]
  case insReact e ty =>
    split
    · qclose
    · simp [qW, St.push, frameW, frameCmds, hBc, hEv1, hEv2, hRes, hEnt1, hEnt2]
  case mutReact e ty => simp [qW, St.push, frameW, frameCmds, hBc, hEv1, hEv2, hRes, hEnt1, hEnt2]
  case register trigs sys mode =>
    cases mode <;> dsimp only <;>
      simp [qW, St.push, frameW, frameCmds, listW_light hL _ (regAll_light _ _ trigs)]
  case regEnt rt e h => split <;> (try split) <;> qclose
  case regDsp e h => split <;> qclose
  case regType t ty h => split <;> qclose
  case revoke sys trigs => simp [qW]
  case despawn e => simp [qW]
  case cleanup k => simp [qW]
  case ewrAdd e wr v sys =>
    split
    · simp [qW, St.push, frameW, frameCmds, hL _ (rfl : isPayloadCmd (.ewrInsertLocal e wr v) = false),
        hL _ (rfl : isPayloadCmd (.register (ewrBundle wr e) sys .persistent) = false)]
    · qclose
  case ewrCleanupData sys e wr => split <;> (try split) <;> qclose
  all_goals (first | qclose | (split <;> qclose))

end Cobweb

namespace Cobweb

/-! ### the invariant -/

/-- Queued spawns of data entity `d`. -/
def cmdSp (d : Nat) : Cmd → Nat
  | .spawnData d' _ => if d' = d then 1 else 0
  | _ => 0

/-- Queued spawns whose payload is already marked taken (there are none). -/
def cmdTk : Cmd → Nat
  | .spawnData _ x => if x.taken then 1 else 0
  | _ => 0

theorem cmdP_light (pid : Nat) : Light (cmdP pid) := by intro c h; cases c <;> first | rfl | cases h
theorem cmdSp_light (d : Nat) : Light (cmdSp d) := by intro c h; cases c <;> first | rfl | cases h
theorem cmdTk_light : Light cmdTk := by intro c h; cases c <;> first | rfl | cases h

def someD (d : Nat) (s : St) : Nat := if (s.data d).isSome then 1 else 0

/-- Pending spawns of `d` plus one if `d` holds data. -/
def occ (d : Nat) (s : St) : Nat := qW (cmdSp d) s + someD d s

theorem queueP_eq (pid : Nat) (s : St) : queueP pid s = qW (cmdP pid) s := by
  have : frameP pid = frameW (cmdP pid) := by
    funext f; cases f <;> simp [frameP, frameW, frameCmds, listP, listW]
  simp [queueP, qW, this, listP, listW]

/-- The accounting with the commands in `hand` taken out of the queues (the frame being run). -/
structure PayPre (s : St) (hand : List Cmd) : Prop where
  bal : ∀ pid, nS pid s = nD pid s + qW (cmdP pid) s + dataP pid s + listW (cmdP pid) hand
  occ1 : ∀ d, occ d s + listW (cmdSp d) hand ≤ 1
  occ0 : ∀ d, s.nextEnt ≤ d → occ d s + listW (cmdSp d) hand = 0
  unt : qW cmdTk s + listW cmdTk hand = 0

/-- **Payload accounting.** For every payload id: sent = dropped + carried by a queued command + stored untaken on a data
    entity; a data entity id is pending in at most one spawn command or holds data, never both; ids at or beyond
    `nextEnt` are unused; queued payloads are untaken. -/
def PayInv (s : St) : Prop := PayPre s []

theorem PayPre.dataOld {s : St} {hand : List Cmd} (h : PayPre s hand) : DataOld s := by
  intro d hd
  have := h.occ0 d hd
  simp only [occ, someD] at this
  cases hx : s.data d with
  | none => rfl
  | some x => simp [hx] at this

/-- The general step: `used` commands leave the queues, `new` ones enter. -/
theorem inv_step {s s' : St} {hand used new : List Cmd} (hpre : PayPre s hand)
    (hQ : ∀ w, Light w → qW w s' + listW w used = qW w s + listW w hand + listW w new)
    (hB : ∀ pid, nS pid s' + nD pid s + dataP pid s + listW (cmdP pid) used = nS pid s + nD pid s' + dataP pid s' + listW (cmdP pid) new)
    (hO : ∀ d, someD d s' + listW (cmdSp d) new ≤ someD d s + listW (cmdSp d) used + (if s.nextEnt ≤ d ∧ d < s'.nextEnt then 1 else 0))
    (hN : s.nextEnt ≤ s'.nextEnt)
    (hT : listW cmdTk new = 0) : PayInv s' := by
  refine ⟨fun pid => ?_, fun d => ?_, fun d hd => ?_, ?_⟩
  · have h1 := hpre.bal pid
    have h2 := hQ _ (cmdP_light pid)
    have h3 := hB pid
    simp only [listW_nil]; omega
  · have h1 := hpre.occ1 d
    have h2 := hQ _ (cmdSp_light d)
    have h3 := hO d
    simp only [occ, listW_nil] at *
    by_cases hd : s.nextEnt ≤ d
    · have h0 := hpre.occ0 d hd
      simp only [occ] at h0
      split at h3 <;> omega
    · have : ¬(s.nextEnt ≤ d ∧ d < s'.nextEnt) := fun h => hd h.1
      simp only [this, if_false] at h3
      omega
  · have h0 := hpre.occ0 d (by omega)
    have h2 := hQ _ (cmdSp_light d)
    have h3 := hO d
    have : ¬(s.nextEnt ≤ d ∧ d < s'.nextEnt) := fun h => by omega
    simp only [this, if_false] at h3
    simp only [occ, listW_nil] at *
    omega
  · have h1 := hpre.unt
    have h2 := hQ _ cmdTk_light
    simp only [listW_nil]; omega

/-- The data-level effect of a step, queues aside. -/
structure DL (s s' : St) : Prop where
  sends : ∀ pid, nS pid s' = nS pid s
  bal : ∀ pid, nD pid s' + dataP pid s' = nD pid s + dataP pid s
  next : s.nextEnt ≤ s'.nextEnt
  some : ∀ d, (s'.data d).isSome = true → (s.data d).isSome = true

theorem DStep.dl {s s' : St} (h : DStep s s') : DL s s' := ⟨h.sends, h.bal, by rw [h.next]; exact Nat.le_refl _, h.some⟩

theorem DL.refl (s : St) : DL s s := ⟨fun _ => rfl, fun _ => rfl, Nat.le_refl _, fun _ h => h⟩

theorem DL.trans {a b c : St} (h1 : DL a b) (h2 : DL b c) : DL a c :=
  ⟨fun pid => (h2.sends pid).trans (h1.sends pid), fun pid => (h2.bal pid).trans (h1.bal pid), Nat.le_trans h1.next h2.next,
   fun d h => h1.some d (h2.some d h)⟩

theorem dataP_grow (pid : Nat) (s : St) (hold : DataOld s) (data : Nat → Option DataEnt) (hd : data = s.data) (n : Nat) (hn : s.nextEnt ≤ n) :
    sumTo n (fun d => optP pid (data d)) = dataP pid s := by
  subst hd
  induction n with
  | zero => have : s.nextEnt = 0 := by omega
            simp [dataP, this]
  | succ n ih =>
    by_cases h : s.nextEnt ≤ n
    · rw [sumTo_succ, ih h, hold n h]; rfl
    · have : s.nextEnt = n + 1 := by omega
      simp [dataP, this]

/-- Same payload-relevant trace counts, same data, `nextEnt` not smaller. -/
theorem DL.of_eq {s s' : St} (hold : DataOld s) (h1 : ∀ pid, nS pid s' = nS pid s) (h2 : ∀ pid, nD pid s' = nD pid s)
    (h3 : s'.data = s.data) (h4 : s.nextEnt ≤ s'.nextEnt) : DL s s' :=
  ⟨h1, fun pid => by rw [h2, show dataP pid s' = dataP pid s from dataP_grow pid s hold _ h3 _ h4], h4, fun d h => by rw [h3] at h; exact h⟩

/-- Fields the accounting does not read changed afterwards. -/
theorem DL.then_same {s s1 s2 : St} (h : DL s s1) (h1 : s2.trace = s1.trace) (h2 : s2.data = s1.data) (h3 : s2.nextEnt = s1.nextEnt) : DL s s2 :=
  ⟨fun pid => by rw [nS_of_trace pid h1]; exact h.sends pid,
   fun pid => by rw [nD_of_trace pid h1, dataP_of_eq pid h2 h3]; exact h.bal pid,
   by rw [h3]; exact h.next, fun d hh => h.some d (by rw [h2] at hh; exact hh)⟩

theorem someD_mono {s s' : St} (h : ∀ d, (s'.data d).isSome = true → (s.data d).isSome = true) (d : Nat) : someD d s' ≤ someD d s := by
  simp only [someD]
  by_cases h1 : (s'.data d).isSome = true
  · simp [h1, h d h1]
  · simp [h1]

/-- A step that only rearranges the commands in hand. -/
theorem inv_dl {s s' : St} {hand : List Cmd} (hpre : PayPre s hand) (hdl : DL s s')
    (hQ : ∀ w, Light w → qW w s' = qW w s + listW w hand) : PayInv s' :=
  inv_step (used := []) (new := []) hpre (fun w hw => by simp [hQ w hw])
    (fun pid => by have := hdl.sends pid; have := hdl.bal pid; simp only [listW_nil]; omega)
    (fun d => by have := someD_mono hdl.some d; simp only [listW_nil]; omega) hdl.next rfl

end Cobweb

namespace Cobweb

/-! ### one command -/

macro "dleq" : tactic =>
  `(tactic| (refine DL.of_eq ‹DataOld _› (fun pid => ?_) (fun pid => ?_) ?_ ?_ <;>
      first | rfl | (simp [nS, nD, St.emit, St.push, List.count_cons]; done)))

/-- Every command except the three that carry a payload leaves the data-level accounting alone. -/
theorem dl_applyCmd (s : St) (c : Cmd) (hc : isPayloadCmd c = false) (hold : DataOld s) : DL s (applyCmd s c) := by
  cases c <;> simp only [applyCmd]
  case spawnData => cases hc
  case broadcast => cases hc
  case entityEvent => cases hc
  case despawn e => exact (dstep_despawn1 s e hold).dl
  case cleanup k => exact (dstep_cleanupK s k hold).dl
  case register trigs sys mode => cases mode <;> dsimp only <;> dleq
  case regEnt rt e h => split <;> (try split) <;> dleq
  case regDsp e h => split <;> dleq
  case regType t ty h => split <;> dleq
  case ewrCleanupData sys e wr => split <;> (try split) <;> dleq
  all_goals (first | dleq | (split <;> dleq))

/-- A queued spawn finds its data entity empty and already allocated. -/
theorem pre_spawn {s : St} {d : Nat} {x : DataEnt} {cs : List Cmd} (h : PayPre s (.spawnData d x :: cs)) :
    s.data d = none ∧ d < s.nextEnt ∧ x.taken = false := by
  refine ⟨?_, ?_, ?_⟩
  · have := h.occ1 d
    simp only [occ, someD, listW_cons, cmdSp, if_true] at this
    cases hx : s.data d with
    | none => rfl
    | some y => simp [hx] at this; omega
  · by_cases hd : d < s.nextEnt
    · exact hd
    · have := h.occ0 d (by omega)
      simp only [listW_cons, cmdSp, if_true] at this
      omega
  · have := h.unt
    simp only [listW_cons, cmdTk] at this
    cases hx : x.taken with
    | false => rfl
    | true => simp [hx] at this

theorem nD_emit_drop (pid q : Nat) (s : St) : nD pid (s.emit (.dropPayload q)) = nD pid s + (if q = pid then 1 else 0) := by
  rw [nD_emit]
  by_cases h : q = pid
  · subst h; simp
  · have : ¬ Ev.dropPayload q = Ev.dropPayload pid := by intro h'; cases h'; exact h rfl
    simp [h, this]

theorem nS_emit_drop (pid q : Nat) (s : St) : nS pid (s.emit (.dropPayload q)) = nS pid s := by
  rw [nS_emit]; simp

theorem someD_of_data {s s' : St} (h : s'.data = s.data) (d : Nat) : someD d s' = someD d s := by simp [someD, h]

/-- Running one command that is accounted for as in hand. -/
theorem pay_applyCmd0 (s : St) (c : Cmd) (hpre : PayPre s [c]) : PayInv (applyCmd s c) := by
  have hold : DataOld s := hpre.dataOld
  by_cases hc : isPayloadCmd c = false
  · refine inv_dl hpre (dl_applyCmd _ c hc hold) (fun w hw => ?_)
    have hcr : createdW w s c = 0 := by
      cases c <;> first | rfl | cases hc
    rw [qW_applyCmd w hw, hcr, listW_cons, hw c hc]; simp
  · cases c <;> first | (exact absurd rfl hc) | skip
    case spawnData d x =>
      obtain ⟨hnone, hlt, htk⟩ := pre_spawn hpre
      refine inv_step (used := [.spawnData d x]) (new := []) hpre (fun w hw => ?_) (fun pid => ?_) (fun d' => ?_) ?_ rfl
      · rw [qW_applyCmd w hw]; simp [createdW]
      · simp only [applyCmd]
        split
        · have := dataP_update pid s d (some x) hlt
          simp only [hnone, optP] at this
          simp only [listW_cons, listW_nil, cmdP]
          show nS pid s + nD pid s + dataP pid s + _ = nS pid s + nD pid s + dataP pid ({ s with data := upd s.data d (some x) } : St) + _
          omega
        · rw [nS_emit_drop, nD_emit_drop]
          simp only [listW_cons, listW_nil, cmdP, payP, htk]
          show nS pid s + nD pid s + dataP pid s + _ = nS pid s + (nD pid s + _) + dataP pid s + _
          simp; split <;> omega
      · simp only [applyCmd]
        split
        · simp only [someD, listW_cons, listW_nil, cmdSp]
          show (if (upd s.data d (some x) d').isSome then 1 else 0) + 0 ≤ _
          by_cases hdd : d' = d
          · subst hdd; simp [upd]; omega
          · have hdd' : ¬ d = d' := fun h => hdd h.symm
            simp [upd, hdd, hdd']
        · simp only [someD, listW_cons, listW_nil, cmdSp]
          show (if (s.data d').isSome then 1 else 0) + 0 ≤ _
          omega
      · simp only [applyCmd]; split <;> exact Nat.le_refl _
    case broadcast ty pid0 =>
      by_cases hl : (s.tbl .bc ty).isEmpty = true
      · have e : applyCmd s (.broadcast ty pid0) = s.emit (.dropPayload pid0) := by
          simp only [applyCmd]; rw [if_pos (by simpa using hl)]
        rw [e]
        refine inv_step (used := [.broadcast ty pid0]) (new := []) hpre (fun w hw => ?_) (fun pid => ?_) (fun d' => ?_) (Nat.le_refl _) rfl
        · have : qW w (s.emit (.dropPayload pid0)) = qW w s := by simp [qW]
          rw [this]; simp
        · rw [nS_emit_drop, nD_emit_drop]
          simp only [listW_cons, listW_nil, cmdP]
          show nS pid s + nD pid s + dataP pid s + _ = nS pid s + (nD pid s + _) + dataP pid s + _
          omega
        · rw [someD_of_data (s := s) (by simp)]; simp only [listW_nil, Nat.add_zero]
          exact Nat.le_trans (Nat.le_add_right _ _) (Nat.le_add_right _ _)
      · have hl' : ¬ (s.tbl .bc ty).isEmpty = true := hl
        have e : applyCmd s (.broadcast ty pid0) =
            (s.fresh.2).push [.flush, .batch (Cmd.spawnData s.nextEnt
              { kind := .bc, ty := ty, pid := pid0, target := 0, cnt := (s.tbl .bc ty).length, taken := false } ::
              (s.tbl .bc ty).map (fun h => Cmd.reactBc s.nextEnt h.sys))] := by
          simp only [applyCmd]; rw [if_neg (by simpa using hl')]; rfl
        refine inv_step (used := [.broadcast ty pid0])
          (new := [.spawnData s.nextEnt { kind := .bc, ty := ty, pid := pid0, target := 0, cnt := (s.tbl .bc ty).length, taken := false }])
          hpre (fun w hw => ?_) (fun pid => ?_) (fun d' => ?_) ?_ rfl
        · rw [qW_applyCmd w hw]
          have : createdW w s (.broadcast ty pid0) =
              w (.spawnData s.nextEnt { kind := .bc, ty := ty, pid := pid0, target := 0, cnt := (s.tbl .bc ty).length, taken := false }) := by
            simp only [createdW]; rw [if_neg (by simpa using hl')]
          rw [this]; simp; omega
        · rw [e]
          have e1 : nS pid ((s.fresh.2).push [.flush, .batch (Cmd.spawnData s.nextEnt
              { kind := .bc, ty := ty, pid := pid0, target := 0, cnt := (s.tbl .bc ty).length, taken := false } ::
              (s.tbl .bc ty).map (fun h => Cmd.reactBc s.nextEnt h.sys))]) = nS pid s := rfl
          have e2 : nD pid ((s.fresh.2).push [.flush, .batch (Cmd.spawnData s.nextEnt
              { kind := .bc, ty := ty, pid := pid0, target := 0, cnt := (s.tbl .bc ty).length, taken := false } ::
              (s.tbl .bc ty).map (fun h => Cmd.reactBc s.nextEnt h.sys))]) = nD pid s := rfl
          have e3 : dataP pid ((s.fresh.2).push [.flush, .batch (Cmd.spawnData s.nextEnt
              { kind := .bc, ty := ty, pid := pid0, target := 0, cnt := (s.tbl .bc ty).length, taken := false } ::
              (s.tbl .bc ty).map (fun h => Cmd.reactBc s.nextEnt h.sys))]) = dataP pid s :=
            dataP_grow pid s hold _ rfl (s.nextEnt + 1) (Nat.le_succ _)
          rw [e1, e2, e3]
          simp [cmdP, payP]
        · rw [e]
          have : someD d' ((s.fresh.2).push [.flush, .batch (Cmd.spawnData s.nextEnt
              { kind := .bc, ty := ty, pid := pid0, target := 0, cnt := (s.tbl .bc ty).length, taken := false } ::
              (s.tbl .bc ty).map (fun h => Cmd.reactBc s.nextEnt h.sys))]) = someD d' s := rfl
          rw [this]
          have hn : ((s.fresh.2).push [.flush, .batch (Cmd.spawnData s.nextEnt
              { kind := .bc, ty := ty, pid := pid0, target := 0, cnt := (s.tbl .bc ty).length, taken := false } ::
              (s.tbl .bc ty).map (fun h => Cmd.reactBc s.nextEnt h.sys))]).nextEnt = s.nextEnt + 1 := rfl
          rw [hn]
          simp only [listW_cons, listW_nil, cmdSp]
          by_cases hdd : s.nextEnt = d'
          · subst hdd; simp
          · simp [hdd]
        · rw [e]; exact Nat.le_succ _
    case entityEvent e0 ty pid0 =>
      let rt : RType := ⟨.ev, ty⟩
      have hel : entListeners s e0 rt = entListeners s e0 rt := rfl
      by_cases hl : (entListeners s e0 rt).length + (s.tbl .anyEv ty).length = 0
      · have e : applyCmd s (.entityEvent e0 ty pid0) = s.emit (.dropPayload pid0) := by
          simp only [applyCmd]; rw [if_pos (by rw [hel]; exact hl)]
        rw [e]
        refine inv_step (used := [.entityEvent e0 ty pid0]) (new := []) hpre (fun w hw => ?_) (fun pid => ?_) (fun d' => ?_) (Nat.le_refl _) rfl
        · have : qW w (s.emit (.dropPayload pid0)) = qW w s := by simp [qW]
          rw [this]; simp
        · rw [nS_emit_drop, nD_emit_drop]
          simp only [listW_cons, listW_nil, cmdP]
          show nS pid s + nD pid s + dataP pid s + _ = nS pid s + (nD pid s + _) + dataP pid s + _
          omega
        · rw [someD_of_data (s := s) (by simp)]; simp only [listW_nil, Nat.add_zero]
          exact Nat.le_trans (Nat.le_add_right _ _) (Nat.le_add_right _ _)
      · let n := (entListeners s e0 rt).length + (s.tbl .anyEv ty).length
        let x : DataEnt := { kind := .ev, ty := ty, pid := pid0, target := e0, cnt := n, taken := false }
        have e : applyCmd s (.entityEvent e0 ty pid0) =
            (s.fresh.2).push [.flush, .batch (Cmd.spawnData s.nextEnt x ::
              ((entListeners s e0 rt).map (fun r => Cmd.reactEv e0 s.nextEnt r) ++
               (s.tbl .anyEv ty).map (fun h => Cmd.reactEv e0 s.nextEnt h.sys)))] := by
          simp only [applyCmd]; rw [if_neg (by rw [hel]; exact hl)]; rfl
        refine inv_step (used := [.entityEvent e0 ty pid0]) (new := [.spawnData s.nextEnt x])
          hpre (fun w hw => ?_) (fun pid => ?_) (fun d' => ?_) ?_ rfl
        · rw [qW_applyCmd w hw]
          have : createdW w s (.entityEvent e0 ty pid0) = w (.spawnData s.nextEnt x) := by
            simp only [createdW]; rw [if_neg (by rw [hel]; exact hl)]
          rw [this]; simp; omega
        · rw [e]
          have e1 : nS pid ((s.fresh.2).push [.flush, .batch (Cmd.spawnData s.nextEnt x ::
              ((entListeners s e0 rt).map (fun r => Cmd.reactEv e0 s.nextEnt r) ++
               (s.tbl .anyEv ty).map (fun h => Cmd.reactEv e0 s.nextEnt h.sys)))]) = nS pid s := rfl
          have e2 : nD pid ((s.fresh.2).push [.flush, .batch (Cmd.spawnData s.nextEnt x ::
              ((entListeners s e0 rt).map (fun r => Cmd.reactEv e0 s.nextEnt r) ++
               (s.tbl .anyEv ty).map (fun h => Cmd.reactEv e0 s.nextEnt h.sys)))]) = nD pid s := rfl
          have e3 : dataP pid ((s.fresh.2).push [.flush, .batch (Cmd.spawnData s.nextEnt x ::
              ((entListeners s e0 rt).map (fun r => Cmd.reactEv e0 s.nextEnt r) ++
               (s.tbl .anyEv ty).map (fun h => Cmd.reactEv e0 s.nextEnt h.sys)))]) = dataP pid s :=
            dataP_grow pid s hold _ rfl (s.nextEnt + 1) (Nat.le_succ _)
          rw [e1, e2, e3]
          simp [cmdP, payP, x]
        · rw [e]
          have : someD d' ((s.fresh.2).push [.flush, .batch (Cmd.spawnData s.nextEnt x ::
              ((entListeners s e0 rt).map (fun r => Cmd.reactEv e0 s.nextEnt r) ++
               (s.tbl .anyEv ty).map (fun h => Cmd.reactEv e0 s.nextEnt h.sys)))]) = someD d' s := rfl
          rw [this]
          have hn : ((s.fresh.2).push [.flush, .batch (Cmd.spawnData s.nextEnt x ::
              ((entListeners s e0 rt).map (fun r => Cmd.reactEv e0 s.nextEnt r) ++
               (s.tbl .anyEv ty).map (fun h => Cmd.reactEv e0 s.nextEnt h.sys)))]).nextEnt = s.nextEnt + 1 := rfl
          rw [hn]
          simp only [listW_cons, listW_nil, cmdSp]
          by_cases hdd : s.nextEnt = d'
          · subst hdd; simp
          · simp [hdd]
        · rw [e]; exact Nat.le_succ _


theorem pre_push_batch {s : St} {c : Cmd} {cs : List Cmd} (h : PayPre s (c :: cs)) : PayPre (s.push [.flush, .batch cs]) [c] := by
  have hq0 : ∀ w, qW w (s.push [.flush, .batch cs]) = qW w s + listW w cs := by
    intro w; simp [qW, St.push, frameW, frameCmds]; omega
  refine ⟨fun pid => ?_, fun d => ?_, fun d hd => ?_, ?_⟩
  · have := h.bal pid
    rw [hq0]
    show nS pid s = nD pid s + _ + dataP pid s + _
    simp only [listW_cons, listW_nil] at this ⊢; omega
  · have := h.occ1 d
    simp only [occ, hq0, listW_cons, listW_nil] at this ⊢
    show qW (cmdSp d) s + listW (cmdSp d) cs + someD d s + _ ≤ 1
    omega
  · have := h.occ0 d hd
    simp only [occ, hq0, listW_cons, listW_nil] at this ⊢
    show qW (cmdSp d) s + listW (cmdSp d) cs + someD d s + _ = 0
    omega
  · have := h.unt
    simp only [hq0, listW_cons, listW_nil] at this ⊢
    omega

/-- Running the head of a batch. -/
theorem pay_applyCmd (s : St) (c : Cmd) (cs : List Cmd) (hpre : PayPre s (c :: cs)) :
    PayInv (applyCmd (s.push [.flush, .batch cs]) c) := pay_applyCmd0 _ c (pre_push_batch hpre)

end Cobweb

namespace Cobweb

/-! ### the API calls of a body -/

theorem nS_emit_send (pid q : Nat) (s : St) : nS pid (s.emit (.send q)) = nS pid s + (if q = pid then 1 else 0) := by
  rw [nS_emit]
  by_cases h : q = pid
  · subst h; simp
  · have : ¬ Ev.send q = Ev.send pid := by intro h'; cases h'; exact h rfl
    simp [h, this]

theorem nD_emit_send (pid q : Nat) (s : St) : nD pid (s.emit (.send q)) = nD pid s := by
  rw [nD_emit]; simp

theorem nS_emit_ret (pid : Nat) (v : Option Nat) (s : St) : nS pid (s.emit (.ret v)) = nS pid s := by rw [nS_emit]; simp
theorem nD_emit_ret (pid : Nat) (v : Option Nat) (s : St) : nD pid (s.emit (.ret v)) = nD pid s := by rw [nD_emit]; simp

theorem ewrRemove_light (sys wr : Nat) (l : List Nat) (w : Cmd → Nat) (hw : Light w) :
    listW w (l.map (fun e => Cmd.ewrCleanupData sys e wr)) = 0 := listW_map_light hw l _ (fun _ => rfl)

/-- What a call does to the accounting: each send is matched by the payload command it queues; a system event's data
    entity id is freshly reserved. -/
theorem pay_enqueue (s : St) (a : Act) :
    (∀ pid, nS pid (enqueue s a).1 = nS pid s + listW (cmdP pid) (enqueue s a).2) ∧
    (∀ pid, nD pid (enqueue s a).1 = nD pid s) ∧
    (enqueue s a).1.data = s.data ∧ s.nextEnt ≤ (enqueue s a).1.nextEnt ∧
    (∀ d, listW (cmdSp d) (enqueue s a).2 ≤ 1 ∧
      (listW (cmdSp d) (enqueue s a).2 = 0 ∨ (s.nextEnt ≤ d ∧ d < (enqueue s a).1.nextEnt))) ∧
    listW cmdTk (enqueue s a).2 = 0 := by
  have hz : ∀ sys wr (l : List Nat) (w : Cmd → Nat), Light w → listW w (l.map (fun e => Cmd.ewrCleanupData sys e wr)) = 0 :=
    fun sys wr l w hw => ewrRemove_light sys wr l w hw
  cases a <;> simp only [enqueue]
  case sysEvent sys ty pid0 =>
    refine ⟨fun pid => ?_, fun pid => ?_, rfl, Nat.le_succ _, fun d => ?_, by simp [cmdTk]⟩
    · show nS pid (s.emit (.send pid0)) = _
      rw [nS_emit_send]; simp [cmdP, payP]
    · show nD pid (s.emit (.send pid0)) = _
      rw [nD_emit_send]
    · simp only [listW_cons, listW_nil, cmdSp]
      show (if s.nextEnt = d then 1 else 0) + (0 + 0) ≤ 1 ∧ ((if s.nextEnt = d then 1 else 0) + (0 + 0) = 0 ∨ (s.nextEnt ≤ d ∧ d < s.nextEnt + 1))
      by_cases h : s.nextEnt = d
      · subst h; simp
      · simp [h]
  case broadcast ty pid0 =>
    refine ⟨fun pid => ?_, fun pid => ?_, rfl, Nat.le_refl _, fun d => by simp [cmdSp], by simp [cmdTk]⟩
    · rw [nS_emit_send]; simp [cmdP]
    · rw [nD_emit_send]
  case entityEvent e ty pid0 =>
    refine ⟨fun pid => ?_, fun pid => ?_, rfl, Nat.le_refl _, fun d => by simp [cmdSp], by simp [cmdTk]⟩
    · rw [nS_emit_send]; simp [cmdP]
    · rw [nD_emit_send]
  case ewrRemove wr trigs =>
    simp [hz _ _ _ _ (cmdP_light _), hz _ _ _ _ (cmdSp_light _), hz _ _ _ _ cmdTk_light, cmdP, cmdSp, cmdTk]
  all_goals
    repeat' (first | split | dsimp only)
  all_goals
    refine ⟨fun pid => ?_, fun pid => ?_, ?_, ?_, fun d => ?_, ?_⟩ <;>
    first
    | rfl
    | (simp [nS_emit_ret, nD_emit_ret, cmdP, cmdSp, cmdTk, St.fresh]; done)
    | (simp [nS, nD, St.emit, cmdP, cmdSp, cmdTk, St.fresh, List.count_cons]; done)

end Cobweb

namespace Cobweb

/-! ### one frame -/

theorem DL.push {s s1 : St} (h : DL s s1) (fs : List Frame) : DL s (s1.push fs) := h.then_same rfl rfl rfl

/-- A body's call. -/
theorem inv_enqueue {s s' : St} {hand : List Cmd} (a : Act) (hpre : PayPre s hand)
    (htr : s'.trace = (enqueue s a).1.trace) (hdat : s'.data = (enqueue s a).1.data) (hn : s'.nextEnt = (enqueue s a).1.nextEnt)
    (hQ : ∀ w, Light w → qW w s' = qW w s + listW w hand + listW w (enqueue s a).2) : PayInv s' := by
  obtain ⟨h1, h2, h3, h4, h5, h6⟩ := pay_enqueue s a
  have hold := hpre.dataOld
  refine inv_step (used := []) (new := (enqueue s a).2) hpre (fun w hw => by simp [hQ w hw]) (fun pid => ?_) (fun d => ?_) (by rw [hn]; exact h4) h6
  · have e1 : nS pid s' = nS pid (enqueue s a).1 := nS_of_trace pid htr
    have e2 : nD pid s' = nD pid (enqueue s a).1 := nD_of_trace pid htr
    have e3 : dataP pid s' = dataP pid s := dataP_grow pid s hold _ (hdat.trans h3) _ (by rw [hn]; exact h4)
    rw [e1, e2, e3, h1, h2]; simp only [listW_nil]; omega
  · have e : someD d s' = someD d s := someD_of_data (hdat.trans h3) d
    rw [e, hn]
    obtain ⟨h5a, h5b⟩ := h5 d
    simp only [listW_nil]
    rcases h5b with h0 | h0
    · omega
    · simp only [h0, and_self, if_true]; omega

macro "hq" : tactic =>
  `(tactic| (intro w hw; simp [qW, St.push, St.emit, frameW, frameCmds]; try omega))

theorem pay_runFrame' (p : Prog) (hh : Hist) (s : St) (f : Frame) (hpre : PayPre s (frameCmds f)) :
    PayInv (runFrame p hh s f) := by
  have hold : DataOld s := hpre.dataOld
  cases f <;> simp only [runFrame]
  case batch cs =>
    cases cs with
    | nil => exact inv_dl hpre (DL.refl s) (fun w hw => by simp [frameCmds, doBatch])
    | cons c cs => exact pay_applyCmd s c cs hpre
  case flush =>
    unfold doFlush; split
    · exact inv_dl hpre (DL.refl s) (fun w hw => by simp [frameCmds])
    · exact inv_dl hpre ((DL.refl s).then_same rfl rfl rfl) (by hq)
  case bodyActs sys k i acc =>
    unfold doBodyActs; split
    · refine inv_dl hpre (DL.push (by dleq) _) (by hq)
    · rename_i a _
      exact inv_enqueue a hpre rfl rfl rfl (by hq)
  case exclActs sys i =>
    unfold doExclActs; split
    · refine inv_dl hpre (DL.push (by dleq) _) (by hq)
    · exact inv_dl hpre (DL.push (DL.refl s) _) (by hq)
    · rename_i a _ _
      split
      · exact inv_enqueue a hpre rfl rfl rfl (by hq)
      · exact inv_enqueue a hpre rfl rfl rfl (by hq)
  case topActs t i =>
    unfold doTopActs; split
    · exact inv_dl hpre (DL.push (DL.refl s) _) (by hq)
    · rename_i a _
      exact inv_enqueue a hpre rfl rfl rfl (by hq)
  case cleanup k =>
    have h := dstep_cleanupK s k hold
    exact inv_dl hpre h.dl (fun w hw => by simp [qW, h.wq, h.stack, frameCmds])
  case onceTail sys =>
    unfold doOnceTail
    have h := dstep_despawn1 s sys hold
    refine inv_dl hpre (h.dl.then_same rfl rfl rfl) (fun w hw => ?_)
    simp [qW, St.push, frameW, frameCmds, h.wq, h.stack, hw _ (rfl : isPayloadCmd (.revoke sys _) = false)]
  case dropCallback sys => exact inv_dl hpre (by dleq) (by hq)
  case runnerStart sys k =>
    unfold doRunnerStart
    exact inv_dl hpre (DL.push (by dleq) _) (by hq)
  case runnerLookup sys k idx =>
    unfold doRunnerLookup abortFrames
    split
    · exact inv_dl hpre (DL.push (by dleq) _) (by hq)
    split
    · exact inv_dl hpre (DL.push (by dleq) _) (by hq)
    · split
      · exact inv_dl hpre (DL.push (by dleq) _) (by hq)
      · exact inv_dl hpre (by dleq) (by hq)
    · dsimp only
      split
      · exact inv_dl hpre (DL.push (by dleq) _) (by hq)
      · have hold2 : DataOld ({ s with storage := upd s.storage sys (some false), counter := s.counter + 1 } : St) := hold
        have h := (dstep_startBody ({ s with storage := upd s.storage sys (some false), counter := s.counter + 1 } : St) sys k hold2).after
          (s := s) rfl rfl rfl rfl rfl
        split
        · exact inv_dl hpre (DL.push h.dl _) (fun w hw => by simp [qW, St.push, frameW, frameCmds, h.wq, h.stack])
        · split
          · refine inv_dl hpre (h.dl.then_same rfl rfl rfl) (fun w hw => ?_)
            simp [qW, St.push, frameW, frameCmds, h.wq, h.stack, hw _ (rfl : isPayloadCmd (.cleanup k) = false)]
          · exact inv_dl hpre (DL.push h.dl _) (fun w hw => by simp [qW, St.push, frameW, frameCmds, h.wq, h.stack])
  case afterBody sys idx =>
    unfold doAfterBody
    exact inv_dl hpre (DL.push (by dleq) _) (by hq)
  case reinsert sys idx =>
    unfold doReinsert
    split
    · exact inv_dl hpre (DL.push (by dleq) _) (by hq)
    · dsimp only; split <;> exact inv_dl hpre (DL.push (by dleq) _) (by hq)
    · dsimp only; split <;> exact inv_dl hpre (DL.push (by dleq) _) (by hq)
  case replayTake sys idx =>
    unfold doReplayTake
    exact inv_dl hpre (DL.push (by dleq) _) (by hq)
  case replayLoop sys rest kept idx =>
    unfold doReplayLoop
    split
    · exact inv_dl hpre (DL.push (by dleq) _) (by hq)
    · split
      · exact inv_dl hpre (DL.push (by dleq) _) (by hq)
      · exact inv_dl hpre (DL.push (DL.refl s) _) (by hq)
  case finish sys idx =>
    unfold doFinish abortFrames
    split
    · split
      · exact inv_dl hpre (by dleq) (by hq)
      · exact inv_dl hpre (DL.push (by dleq) _) (by hq)
    · exact inv_dl hpre (by dleq) (by hq)
  case abort sys k =>
    have h := ((dstep_setupK s k sys).trans (dstep_cleanupK (setupK s k sys) k ((dstep_setupK s k sys).old hold)))
    exact inv_dl hpre h.dl (fun w hw => by simp [qW, h.wq, h.stack, frameCmds])
  case gc =>
    unfold doGc; split
    · exact inv_dl hpre (DL.refl s) (by hq)
    · exact inv_dl hpre (DL.push (by dleq) _) (by hq)
  case despawnWork work =>
    unfold doDespawnWork
    split
    · exact inv_dl hpre (DL.refl s) (by hq)
    · split
      · rename_i e _ _ _
        split
        · have h := dstep_despawn1 s e hold
          exact inv_dl hpre (DL.push h.dl _) (fun w hw => by simp [qW, St.push, frameW, frameCmds, h.wq, h.stack])
        · exact inv_dl hpre (DL.push (DL.refl s) _) (by hq)
      · split
        · exact inv_dl hpre (DL.push (by dleq) _) (by hq)
        · exact inv_dl hpre (DL.push (DL.refl s) _) (by hq)
  case poll =>
    unfold doPoll
    refine inv_dl hpre (DL.push (s1 := { (pollDespawns (pollRemovals s).1).1 with
      wq := (pollDespawns (pollRemovals s).1).1.wq ++ (pollRemovals s).2 ++ (pollDespawns (pollRemovals s).1).2 }) ?_ _) (fun w hw => ?_)
    · refine DL.of_eq hold (fun pid => ?_) (fun pid => ?_) ?_ ?_ <;> simp [nS, nD]
    · simp [qW, St.push, frameW, frameCmds, listW_light hw _ (pollRem_light s), listW_light hw _ (pollDsp_light _)]

end Cobweb

namespace Cobweb

/-! ### top-level operations, ticks, executions -/

theorem pre_of_emit_send {s : St} (h : PayInv s) (pid0 : Nat) (c : Cmd) (hc : ∀ pid, cmdP pid c = if pid0 = pid then 1 else 0)
    (hsp : ∀ d, cmdSp d c = 0) (htk : cmdTk c = 0) : PayPre (s.emit (.send pid0)) [c] := by
  have hq : ∀ w, qW w (s.emit (.send pid0)) = qW w s := fun w => by simp [qW]
  refine ⟨fun pid => ?_, fun d => ?_, fun d hd => ?_, ?_⟩
  · have := h.bal pid
    rw [nS_emit_send, nD_emit_send, hq, dataP_of_eq (s := s) (s' := s.emit (.send pid0)) pid rfl rfl]
    simp only [listW_cons, listW_nil, hc] at this ⊢; omega
  · have := h.occ1 d
    simp only [occ, hq, someD_of_data (s := s) (s' := s.emit (.send pid0)) rfl, listW_cons, listW_nil, hsp] at this ⊢
    omega
  · have := h.occ0 d hd
    simp only [occ, hq, someD_of_data (s := s) (s' := s.emit (.send pid0)) rfl, listW_cons, listW_nil, hsp] at this ⊢
    omega
  · have := h.unt
    simp only [hq, listW_cons, listW_nil, htk] at this ⊢; omega

/-- `World::send_system_event`: the data entity is stored at once, untaken, and its reader prepared. -/
def wSysEventSt (s : St) (sys ty pid0 : Nat) : St :=
  let (d, s) := (s.emit (.send pid0)).fresh
  let s := { s with data := upd s.data d (some { kind := .sys, ty := ty, pid := pid0, target := 0, cnt := 0, taken := false }) }
  applyCmd s (.sysEvent sys d)

theorem pay_wSysEventSt (s : St) (h : PayInv s) (sys ty pid0 : Nat) : PayInv (wSysEventSt s sys ty pid0) := by
  have hold : DataOld s := h.dataOld
  have etr : (wSysEventSt s sys ty pid0).trace = Ev.send pid0 :: s.trace := rfl
  have enx : (wSysEventSt s sys ty pid0).nextEnt = s.nextEnt + 1 := rfl
  have edat : (wSysEventSt s sys ty pid0).data =
      upd s.data s.nextEnt (some { kind := .sys, ty := ty, pid := pid0, target := 0, cnt := 0, taken := false }) := rfl
  have ewq : (wSysEventSt s sys ty pid0).wq = s.wq := rfl
  have estk : (wSysEventSt s sys ty pid0).stack = Frame.runnerStart sys (.sysEv s.nextEnt) :: s.stack := rfl
  refine inv_step (used := []) (new := []) h (fun w hw => ?_) (fun pid => ?_) (fun d => ?_) (by rw [enx]; exact Nat.le_succ _) rfl
  · simp [qW, ewq, estk, frameW, frameCmds]
  · have e1 : nS pid (wSysEventSt s sys ty pid0) = nS pid s + (if pid0 = pid then 1 else 0) := by
      have := nS_emit_send pid pid0 s
      simp only [nS, St.emit] at this ⊢
      rw [etr]; exact this
    have e2 : nD pid (wSysEventSt s sys ty pid0) = nD pid s := by
      have := nD_emit_send pid pid0 s
      simp only [nD, St.emit] at this ⊢
      rw [etr]; exact this
    have e3 : dataP pid (wSysEventSt s sys ty pid0) = dataP pid s + (if pid0 = pid then 1 else 0) := by
      simp only [dataP, enx, edat, sumTo_succ, upd_same, optP, payP, and_true]
      congr 1
      exact sumTo_congr (fun k hk => by simp [upd, show k ≠ s.nextEnt by omega])
    rw [e1, e2, e3]; simp only [listW_nil]; omega
  · simp only [listW_nil, Nat.add_zero, enx, someD, edat]
    by_cases hd : d = s.nextEnt
    · subst hd; simp [upd]
    · have : ¬(s.nextEnt ≤ d ∧ d < s.nextEnt + 1) := fun hh => hd (by omega)
      simp [upd, hd, this]

theorem pre_nil_of_dl {s s' : St} (h : PayInv s) (hdl : DL s s') (hQ : ∀ w, Light w → qW w s' = qW w s) : PayInv s' :=
  inv_dl h hdl (fun w hw => by simp [hQ w hw])

theorem pay_startTop {s : St} (h : PayInv s) (t : Nat) (op : TopOp) : PayInv (startTop s t op) := by
  have hold : DataOld s := h.dataOld
  have hold1 : DataOld (s.emit (.top t)) := hold
  have h1 : PayInv (s.emit (.top t)) := pre_nil_of_dl h (by dleq) (fun w hw => by simp [qW])
  unfold startTop
  cases op <;> dsimp only
  case acts => exact pre_nil_of_dl h1 (DL.push (DL.refl _) _) (fun w hw => by simp [qW, St.push, frameW, frameCmds])
  case wDespawn e =>
    have hd := dstep_despawn1 (s.emit (.top t)) e hold1
    exact pre_nil_of_dl h1 hd.dl (fun w hw => by simp [qW, hd.wq, hd.stack])
  case wDespawnRec e => exact pre_nil_of_dl h1 (DL.push (DL.refl _) _) (fun w hw => by simp [qW, St.push, frameW, frameCmds])
  case wRemove e ty =>
    exact pre_nil_of_dl h1 (dl_applyCmd _ _ rfl hold1) (fun w hw => by rw [qW_applyCmd w hw]; rfl)
  case wInsertRaw e ty v =>
    exact pre_nil_of_dl h1 (dl_applyCmd _ _ rfl hold1) (fun w hw => by rw [qW_applyCmd w hw]; rfl)
  case wSetParent c p =>
    split
    · exact pre_nil_of_dl h1 ((DL.refl _).then_same rfl rfl rfl) (fun w hw => by simp [qW])
    · exact h1
  case gc => exact pre_nil_of_dl h1 (DL.push (DL.refl _) _) (fun w hw => by simp [qW, St.push, frameW, frameCmds])
  case poll => exact pre_nil_of_dl h1 (DL.push (DL.refl _) _) (fun w hw => by simp [qW, St.push, frameW, frameCmds])
  case frameEnd => exact pre_nil_of_dl h1 (DL.push (DL.refl _) _) (fun w hw => by simp [qW, St.push, frameW, frameCmds])
  case clearTrackers => exact pre_nil_of_dl h1 ((DL.refl _).then_same rfl rfl rfl) (fun w hw => by simp [qW])
  case sigThreads a n => exact pre_nil_of_dl h1 (DL.push (DL.refl _) _) (fun w hw => by simp [qW, St.push, frameW, frameCmds])
  case sigPrepare e => exact pre_nil_of_dl h1 ((DL.refl _).then_same rfl rfl rfl) (fun w hw => by simp [qW, newArc])
  case sigClone a =>
    split
    · exact pre_nil_of_dl h1 ((DL.refl _).then_same (by simp) (by simp) (by simp)) (fun w hw => by simp [qW])
    · exact h1
  case sigDrop a =>
    split
    · exact pre_nil_of_dl h1 ((DL.refl _).then_same (by simp) (by simp) (by simp)) (fun w hw => by simp [qW])
    · exact h1
  case wBroadcast ty pid0 =>
    exact pay_applyCmd0 _ _ (pre_of_emit_send h1 pid0 _ (fun pid => by simp [cmdP]) (fun _ => rfl) rfl)
  case wEntityEvent e ty pid0 =>
    exact pay_applyCmd0 _ _ (pre_of_emit_send h1 pid0 _ (fun pid => by simp [cmdP]) (fun _ => rfl) rfl)
  case wSysEvent sys ty pid0 => exact pay_wSysEventSt _ h1 sys ty pid0

theorem pay_tick (p : Prog) (hh : Hist) {s s' : St} (h : PayInv s) (ht : tick p hh s = some s') : PayInv s' := by
  unfold tick at ht
  split at ht
  · rename_i s'' hs
    simp only [Option.some.injEq] at ht; subst ht
    unfold step at hs
    cases hst : s.stack with
    | nil => rw [hst] at hs; cases hs
    | cons f rest =>
      rw [hst] at hs
      simp only [Option.some.injEq] at hs; subst hs
      apply pay_runFrame'
      have hq : ∀ w, qW w s = qW w ({ s with stack := rest } : St) + listW w (frameCmds f) := by
        intro w; simp [qW, hst, frameW]; omega
      refine ⟨fun pid => ?_, fun d => ?_, fun d hd => ?_, ?_⟩
      · have := h.bal pid
        rw [hq] at this
        simp only [listW_nil] at this
        show nS pid s = nD pid s + _ + dataP pid s + _
        omega
      · have := h.occ1 d
        simp only [occ, hq, listW_nil] at this ⊢
        show qW (cmdSp d) ({ s with stack := rest } : St) + someD d s + _ ≤ 1
        omega
      · have := h.occ0 d hd
        simp only [occ, hq, listW_nil] at this ⊢
        show qW (cmdSp d) ({ s with stack := rest } : St) + someD d s + _ = 0
        omega
      · have := h.unt
        simp only [hq, listW_nil] at this ⊢; omega
  · split at ht
    · rename_i op hop
      simp only [Option.some.injEq] at ht; subst ht
      exact pay_startTop (s := { s with topIdx := s.topIdx + 1 }) ⟨h.bal, h.occ1, h.occ0, h.unt⟩ s.topIdx op
    · cases ht

theorem pay_default : PayInv ({} : St) := by
  refine ⟨fun pid => ?_, fun d => ?_, fun d _ => ?_, ?_⟩ <;> first | rfl | exact Nat.zero_le 1

/-- **Along every execution the payload accounting holds.** -/
theorem pay_reach (p : Prog) (hh : Hist) {s : St} (hr : Reach p hh ({} : St) s) : PayInv s := by
  induction hr with
  | refl => exact pay_default
  | tick _ ht ih => exact pay_tick p hh ih ht

end Cobweb
