/-
  Cobweb.Proofs.ArcCount — reference counts of auto-despawn signals never fall below the number of handles the
  framework still holds (C07: no premature release).

  The registration tables of the model are functions over an unbounded key space, so "the number of holders" is taken
  over the keys below arbitrary bounds `B` (type keys) and `N` (entity keys): the invariant says that for *every* `B`, `N`
  the handles found there, plus those in pending commands and in the despawn tracker, are at most `arcRc`. Taking the
  bounds large enough for a given entry gives: a stored handle's arc has a positive count.
-/
import Cobweb.Proofs.Counts

namespace Cobweb

/-- Number of handles of arc `a` in a list. -/
def hcount (a : Nat) (l : List Handle) : Nat := l.countP (fun h => h.arc == some a)

@[simp] theorem hcount_nil (a : Nat) : hcount a [] = 0 := rfl
@[simp] theorem hcount_append (a : Nat) (l1 l2 : List Handle) : hcount a (l1 ++ l2) = hcount a l1 + hcount a l2 := by
  simp [hcount]
theorem hcount_cons (a : Nat) (h : Handle) (l : List Handle) :
    hcount a (h :: l) = hcount a l + (if h.arc = some a then 1 else 0) := by
  simp [hcount, List.countP_cons]

def hOne (a : Nat) (h : Handle) : Nat := if h.arc = some a then 1 else 0

/-- Sum of `f` over the keys below `n`. -/
def sumTo (n : Nat) (f : Nat → Nat) : Nat := ((List.range n).map f).sum

theorem sumTo_succ (n : Nat) (f : Nat → Nat) : sumTo (n + 1) f = sumTo n f + f n := by
  simp [sumTo, List.range_succ]

theorem sumTo_congr {n : Nat} {f g : Nat → Nat} (h : ∀ k, k < n → f k = g k) : sumTo n f = sumTo n g := by
  induction n with
  | zero => rfl
  | succ n ih =>
    rw [sumTo_succ, sumTo_succ, ih (fun k hk => h k (by omega)), h n (by omega)]

theorem sumTo_mono_bound {n m : Nat} (f : Nat → Nat) (h : n ≤ m) : sumTo n f ≤ sumTo m f := by
  induction h with
  | refl => exact Nat.le_refl _
  | step _ ih => rw [sumTo_succ]; omega

/-- Changing `f` at one key `k` below the bound. -/
theorem sumTo_update {n : Nat} (f g : Nat → Nat) (k : Nat) (hk : k < n) (h : ∀ j, j ≠ k → g j = f j) :
    sumTo n g + f k = sumTo n f + g k := by
  induction n with
  | zero => omega
  | succ n ih =>
    rw [sumTo_succ, sumTo_succ]
    by_cases hkn : k = n
    · subst hkn
      have := sumTo_congr (n := k) (f := g) (g := f) (fun j hj => h j (by omega))
      omega
    · have := ih (by omega)
      rw [h n (fun h' => hkn h'.symm)]
      omega

theorem sumTo_le_of_le {n : Nat} {f g : Nat → Nat} (h : ∀ k, k < n → f k ≤ g k) : sumTo n f ≤ sumTo n g := by
  induction n with
  | zero => exact Nat.le_refl _
  | succ n ih =>
    rw [sumTo_succ, sumTo_succ]
    have := ih (fun k hk => h k (by omega))
    have := h n (by omega)
    omega

theorem sumTo_ge_term {n : Nat} (f : Nat → Nat) (k : Nat) (hk : k < n) : f k ≤ sumTo n f := by
  induction n with
  | zero => omega
  | succ n ih =>
    rw [sumTo_succ]
    by_cases hkn : k = n
    · subst hkn; omega
    · have := ih (by omega); omega

end Cobweb
