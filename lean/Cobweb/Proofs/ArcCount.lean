/-
  Cobweb.Proofs.ArcCount — reference counts of auto-despawn signals never fall below the number of handles the
  framework still holds (C07: no premature release).

  The registration tables of the model are functions over an unbounded key space, so "the number of holders" is taken
  over the keys below arbitrary bounds `B` (type keys) and `N` (entity keys): the invariant says that for *every* `B`, `N`
  the handles found there, plus those in pending commands and in the despawn tracker, are at most `arcRc`. Taking the
  bounds large enough for a given entry gives: a stored handle's arc has a positive count.
-/
import Cobweb.Proofs.Counts
import Cobweb.Proofs.Pending

namespace Cobweb

/-- Number of handles of arc `a` in a list. -/
def hcount (a : Nat) (l : List Handle) : Nat := l.countP (fun h => h.arc == some a)

@[simp] theorem hcount_nil (a : Nat) : hcount a [] = 0 := rfl
@[simp] theorem hcount_append (a : Nat) (l1 l2 : List Handle) : hcount a (l1 ++ l2) = hcount a l1 + hcount a l2 := by
  simp [hcount]
theorem hcount_cons (a : Nat) (h : Handle) (l : List Handle) :
    hcount a (h :: l) = hcount a l + (if h.arc = some a then 1 else 0) := by
  simp [hcount, List.countP_cons]

def hOne (a : Nat) (h : Handle) : Nat := if h.arc = some a then 1 else 0

/-- Sum of `f` over the keys below `n`. -/
def sumTo (n : Nat) (f : Nat → Nat) : Nat := ((List.range n).map f).sum

theorem sumTo_succ (n : Nat) (f : Nat → Nat) : sumTo (n + 1) f = sumTo n f + f n := by
  simp [sumTo, List.range_succ]

theorem sumTo_congr {n : Nat} {f g : Nat → Nat} (h : ∀ k, k < n → f k = g k) : sumTo n f = sumTo n g := by
  induction n with
  | zero => rfl
  | succ n ih =>
    rw [sumTo_succ, sumTo_succ, ih (fun k hk => h k (by omega)), h n (by omega)]

theorem sumTo_mono_bound {n m : Nat} (f : Nat → Nat) (h : n ≤ m) : sumTo n f ≤ sumTo m f := by
  induction h with
  | refl => exact Nat.le_refl _
  | step _ ih => rw [sumTo_succ]; omega

/-- Changing `f` at one key `k` below the bound. -/
theorem sumTo_update {n : Nat} (f g : Nat → Nat) (k : Nat) (hk : k < n) (h : ∀ j, j ≠ k → g j = f j) :
    sumTo n g + f k = sumTo n f + g k := by
  induction n with
  | zero => omega
  | succ n ih =>
    rw [sumTo_succ, sumTo_succ]
    by_cases hkn : k = n
    · subst hkn
      have := sumTo_congr (n := k) (f := g) (g := f) (fun j hj => h j (by omega))
      omega
    · have := ih (by omega)
      rw [h n (fun h' => hkn h'.symm)]
      omega

theorem sumTo_le_of_le {n : Nat} {f g : Nat → Nat} (h : ∀ k, k < n → f k ≤ g k) : sumTo n f ≤ sumTo n g := by
  induction n with
  | zero => exact Nat.le_refl _
  | succ n ih =>
    rw [sumTo_succ, sumTo_succ]
    have := ih (fun k hk => h k (by omega))
    have := h n (by omega)
    omega

theorem sumTo_ge_term {n : Nat} (f : Nat → Nat) (k : Nat) (hk : k < n) : f k ≤ sumTo n f := by
  induction n with
  | zero => omega
  | succ n ih =>
    rw [sumTo_succ]
    by_cases hkn : k = n
    · subst hkn; omega
    · have := ih (by omega); omega

end Cobweb

namespace Cobweb

/-! ### where handles are held -/

def Cmd.handles : Cmd → List Handle
  | .regType _ _ h => [h]
  | .regEnt _ _ h => [h]
  | .regDsp _ h => [h]
  | .reactDsp _ _ h => [h]
  | _ => []

def cmdH (a : Nat) (c : Cmd) : Nat := hcount a c.handles
def cmdsH (a : Nat) (cs : List Cmd) : Nat := (cs.map (cmdH a)).sum

@[simp] theorem cmdsH_nil (a : Nat) : cmdsH a [] = 0 := rfl
@[simp] theorem cmdsH_cons (a : Nat) (c : Cmd) (cs : List Cmd) : cmdsH a (c :: cs) = cmdH a c + cmdsH a cs := by simp [cmdsH]
@[simp] theorem cmdsH_append (a : Nat) (x y : List Cmd) : cmdsH a (x ++ y) = cmdsH a x + cmdsH a y := by simp [cmdsH]

def frameH (a : Nat) : Frame → Nat
  | .batch cs => cmdsH a cs
  | .bodyActs _ _ _ acc => cmdsH a acc
  | _ => 0

def stackH (a : Nat) (st : List Frame) : Nat := sumF (frameH a) st

@[simp] theorem stackH_nil (a : Nat) : stackH a [] = 0 := rfl
@[simp] theorem stackH_cons (a : Nat) (f : Frame) (l : List Frame) : stackH a (f :: l) = frameH a f + stackH a l := by
  simp [stackH]
@[simp] theorem stackH_append (a : Nat) (x y : List Frame) : stackH a (x ++ y) = stackH a x + stackH a y := by
  simp [stackH]

def optHandles : Option (List (RType × Handle)) → List Handle
  | some l => l.map (·.2)
  | none => []

def entHandles (s : St) (e : Nat) : List Handle := optHandles (s.entReactors e)

def tblAt (a : Nat) (s : St) (ty : Nat) : Nat :=
  hcount a (s.tbl .ins ty) + hcount a (s.tbl .mut ty) + hcount a (s.tbl .rem ty) + hcount a (s.tbl .anyEv ty) +
  hcount a (s.tbl .res ty) + hcount a (s.tbl .bc ty)

def trkH (a : Nat) (s : St) : Nat :=
  hcount a (s.trkDsp.prepared.map (·.2.2)) + (match s.trkDsp.curHandle with | some h => hOne a h | none => 0)

/-- Handles of arc `a` the framework holds: in the type-wide tables below key `B`, in the per-entity tables below key
    `N`, in queued commands, and in the despawn tracker. -/
def holders (B N a : Nat) (s : St) : Nat :=
  sumTo B (tblAt a s) + sumTo N (fun e => hcount a (s.tblDsp e)) + sumTo N (fun e => hcount a (entHandles s e)) +
  cmdsH a s.wq + stackH a s.stack + trkH a s

theorem holders_mono {B B' N N' : Nat} (a : Nat) (s : St) (hB : B ≤ B') (hN : N ≤ N') : holders B N a s ≤ holders B' N' a s := by
  unfold holders
  have := sumTo_mono_bound (tblAt a s) hB
  have := sumTo_mono_bound (fun e => hcount a (s.tblDsp e)) hN
  have := sumTo_mono_bound (fun e => hcount a (entHandles s e)) hN
  omega

/-- **The invariant**: the framework never holds more handles of an arc than its reference count says. -/
structure ArcInv (s : St) : Prop where
  le : ∀ B N a, a ∉ s.sigs → holders B N a s ≤ s.arcRc a
  fresh : ∀ B N a, s.nextArc ≤ a → holders B N a s = 0 ∧ s.arcRc a = 0
  sigsOld : ∀ a ∈ s.sigs, a < s.nextArc

/-- A step that spends `t a` handles handed to it from outside (a command popped from a batch, a list of handles to
    drop) and hands `c a` handles back to its caller (entries it removed from a table for the caller to drop).
    User-held signals (`sigs`) are exempt: their clones are counted by the user, not by the framework. -/
def StepT (c t : Nat → Nat) (s s' : St) : Prop :=
  ∀ B N a, a ∉ s.sigs → ∃ B' N', B ≤ B' ∧ N ≤ N' ∧ holders B N a s' + s.arcRc a + c a ≤ holders B' N' a s + t a + s'.arcRc a

structure ArcStep (c t : Nat → Nat) (s s' : St) : Prop where
  bal : StepT c t s s'
  next : s.nextArc ≤ s'.nextArc
  old : ∀ a, s'.nextArc ≤ a → s.arcRc a = 0 → s'.arcRc a = 0
  sigs : ∀ a, a ∈ s'.sigs → a ∈ s.sigs ∨ (s.nextArc ≤ a ∧ a < s'.nextArc)
  keep : ∀ a, a ∈ s.sigs → a ∈ s'.sigs

theorem arc_of_step {s s' : St} {c t : Nat → Nat} (h : ArcInv s) (st : ArcStep c t s s') (hct : ∀ a, t a ≤ c a) : ArcInv s' := by
  constructor
  · intro B N a ha
    have ha0 : a ∉ s.sigs := fun h1 => ha (st.keep a h1)
    obtain ⟨B', N', _, _, hb⟩ := st.bal B N a ha0
    have := h.le B' N' a ha0; have := hct a; omega
  · intro B N a ha
    have ha0 : s.nextArc ≤ a := Nat.le_trans st.next ha
    have hns : a ∉ s.sigs := fun h1 => by have := h.sigsOld a h1; omega
    obtain ⟨B', N', _, _, hb⟩ := st.bal B N a hns
    have hf := h.fresh B' N' a ha0
    have h2 := st.old a ha hf.2
    have := hct a
    constructor
    · omega
    · exact h2
  · intro a ha
    rcases st.sigs a ha with h1 | h1
    · exact Nat.lt_of_lt_of_le (h.sigsOld a h1) st.next
    · exact h1.2

end Cobweb

namespace Cobweb

/-! ### generic facts about steps -/

/-- The arc-relevant state outside the queues is untouched. -/
structure ArcSame (s s' : St) : Prop where
  rc : s'.arcRc = s.arcRc
  tbl : s'.tbl = s.tbl
  dsp : s'.tblDsp = s.tblDsp
  ent : s'.entReactors = s.entReactors
  trk : s'.trkDsp = s.trkDsp
  next : s'.nextArc = s.nextArc
  sigs : s'.sigs = s.sigs

theorem ArcSame.refl (s : St) : ArcSame s s := ⟨rfl, rfl, rfl, rfl, rfl, rfl, rfl⟩

theorem ArcSame.trans {a b c : St} (h1 : ArcSame a b) (h2 : ArcSame b c) : ArcSame a c :=
  ⟨h2.rc.trans h1.rc, h2.tbl.trans h1.tbl, h2.dsp.trans h1.dsp, h2.ent.trans h1.ent, h2.trk.trans h1.trk,
   h2.next.trans h1.next, h2.sigs.trans h1.sigs⟩

/-- Handles in the queues. -/
def queueH (a : Nat) (s : St) : Nat := cmdsH a s.wq + stackH a s.stack

theorem holders_split (B N a : Nat) (s : St) :
    holders B N a s = sumTo B (tblAt a s) + sumTo N (fun e => hcount a (s.tblDsp e)) +
      sumTo N (fun e => hcount a (entHandles s e)) + trkH a s + queueH a s := by
  simp only [holders, queueH]; omega

theorem holders_same {s s' : St} (h : ArcSame s s') (B N a : Nat) : holders B N a s' + queueH a s = holders B N a s + queueH a s' := by
  have e1 : tblAt a s' = tblAt a s := by funext ty; simp [tblAt, h.tbl]
  have e2 : (fun e => hcount a (s'.tblDsp e)) = (fun e => hcount a (s.tblDsp e)) := by funext e; rw [h.dsp]
  have e3 : (fun e => hcount a (entHandles s' e)) = (fun e => hcount a (entHandles s e)) := by funext e; simp [entHandles, h.ent]
  have e4 : trkH a s' = trkH a s := by simp [trkH, h.trk]
  rw [holders_split, holders_split, e1, e2, e3, e4]; omega

/-- A step that only moves handles between the queues, spending `t`. -/
theorem step_of_same {s s' : St} {c t : Nat → Nat} (h : ArcSame s s') (hq : ∀ a, queueH a s' + c a ≤ queueH a s + t a) :
    ArcStep c t s s' := by
  refine ⟨?_, by rw [h.next]; exact Nat.le_refl _, fun a _ h0 => by rw [h.rc]; exact h0, fun a ha => Or.inl (by rw [← h.sigs]; exact ha),
    fun a ha => by rw [h.sigs]; exact ha⟩
  intro B N a _
  refine ⟨B, N, Nat.le_refl _, Nat.le_refl _, ?_⟩
  have := holders_same h B N a
  have := hq a
  rw [h.rc]; omega

theorem ArcStep.trans {a b c : St} {c1 t1 c2 t2 : Nat → Nat} (h1 : ArcStep c1 t1 a b) (h2 : ArcStep c2 t2 b c)
    (hsig : ∀ x, x ∈ b.sigs → x ∈ a.sigs) : ArcStep (fun x => c1 x + c2 x) (fun x => t1 x + t2 x) a c := by
  refine ⟨?_, Nat.le_trans h1.next h2.next, ?_, ?_, fun x hx => h2.keep x (h1.keep x hx)⟩
  · intro B N x hx
    have hb : x ∉ b.sigs := fun h' => hx (hsig x h')
    obtain ⟨B1, N1, hB1, hN1, e1⟩ := h2.bal B N x hb
    obtain ⟨B2, N2, hB2, hN2, e2⟩ := h1.bal B1 N1 x hx
    exact ⟨B2, N2, Nat.le_trans hB1 hB2, Nat.le_trans hN1 hN2, by dsimp only; omega⟩
  · intro x hx h0
    exact h2.old x hx (h1.old x (Nat.le_trans h2.next hx) h0)
  · intro x hx
    rcases h2.sigs x hx with h' | ⟨h', h''⟩
    · rcases h1.sigs x h' with h3 | ⟨h3, h4⟩
      · exact Or.inl h3
      · exact Or.inr ⟨h3, Nat.lt_of_lt_of_le h4 h2.next⟩
    · exact Or.inr ⟨Nat.le_trans h1.next h', h''⟩

end Cobweb

namespace Cobweb

theorem ArcStep.mono {s s' : St} {c t c' t' : Nat → Nat} (h : ArcStep c t s s') (hc : ∀ a, c' a ≤ c a) (ht : ∀ a, t a ≤ t' a) :
    ArcStep c' t' s s' := by
  refine ⟨?_, h.next, h.old, h.sigs, h.keep⟩
  intro B N a ha
  obtain ⟨B', N', h1, h2, h3⟩ := h.bal B N a ha
  exact ⟨B', N', h1, h2, by have := hc a; have := ht a; omega⟩

theorem ArcStep.refl (s : St) : ArcStep (fun _ => 0) (fun _ => 0) s s :=
  step_of_same (ArcSame.refl s) (fun _ => Nat.le_refl _)

/-- Everything `holders` reads, except the reference counts, is the same. -/
structure HoldSame (s s' : St) : Prop where
  tbl : s'.tbl = s.tbl
  dsp : s'.tblDsp = s.tblDsp
  ent : s'.entReactors = s.entReactors
  trk : s'.trkDsp = s.trkDsp
  wq : s'.wq = s.wq
  stack : s'.stack = s.stack

theorem holders_holdSame {s s' : St} (h : HoldSame s s') (B N a : Nat) : holders B N a s' = holders B N a s := by
  have e1 : tblAt a s' = tblAt a s := by funext ty; simp [tblAt, h.tbl]
  have e2 : (fun e => hcount a (s'.tblDsp e)) = (fun e => hcount a (s.tblDsp e)) := by funext e; rw [h.dsp]
  have e3 : (fun e => hcount a (entHandles s' e)) = (fun e => hcount a (entHandles s e)) := by funext e; simp [entHandles, h.ent]
  simp only [holders, e1, e2, e3, trkH, h.trk, h.wq, h.stack]

theorem dropHandle_arcRc (s : St) (h : Handle) (a : Nat) :
    (dropHandle s h).arcRc a = if h.arc = some a then s.arcRc a - 1 else s.arcRc a := by
  unfold dropHandle
  cases harc : h.arc with
  | none => simp
  | some a0 =>
    dsimp only
    have e : ∀ t : St, t.arcRc = upd s.arcRc a0 (s.arcRc a0 - 1) → t.arcRc a = if some a0 = some a then s.arcRc a - 1 else s.arcRc a := by
      intro t ht
      rw [ht]
      by_cases ha : a0 = a
      · subst ha; simp [upd]
      · have : ¬ a = a0 := fun h' => ha h'.symm
        simp [upd, this, ha]
    split <;> exact e _ rfl

theorem cloneHandle_arcRc (s : St) (h : Handle) (a : Nat) :
    (cloneHandle s h).arcRc a = s.arcRc a + hOne a h := by
  unfold cloneHandle hOne
  cases harc : h.arc with
  | none => simp
  | some a0 =>
    dsimp only
    by_cases ha : a0 = a
    · subst ha; simp [upd]
    · have : ¬ a = a0 := fun h' => ha h'.symm
      simp [upd, this, ha]

/-- Dropping a handle: the count goes down by one (saturating), the handle is spent. -/
theorem arc_dropHandle (s : St) (h : Handle) : ArcStep (fun _ => 0) (fun a => hOne a h) s (dropHandle s h) := by
  have hs : HoldSame s (dropHandle s h) := ⟨by simp, by simp, by simp, by simp, by simp, by simp⟩
  refine ⟨?_, by simp, ?_, fun a ha => Or.inl (by simpa using ha), fun a ha => by simpa using ha⟩
  · intro B N a _
    refine ⟨B, N, Nat.le_refl _, Nat.le_refl _, ?_⟩
    rw [holders_holdSame hs, dropHandle_arcRc]
    dsimp only [hOne]
    split <;> omega
  · intro a _ h0
    rw [dropHandle_arcRc, h0]
    split <;> rfl

end Cobweb

namespace Cobweb

theorem hcount_eq_sum (a : Nat) (hs : List Handle) : hcount a hs = (hs.map (hOne a)).sum := by
  induction hs with
  | nil => rfl
  | cons h hs ih => rw [hcount_cons, ih]; simp [hOne]; omega

theorem arc_dropHandles (s : St) (hs : List Handle) :
    ArcStep (fun _ => 0) (fun a => hcount a hs) s (dropHandles s hs) := by
  induction hs generalizing s with
  | nil => exact ArcStep.refl s
  | cons h hs ih =>
    have h1 := arc_dropHandle s h
    have h2 := ih (dropHandle s h)
    have := ArcStep.trans h1 h2 (fun x hx => by simpa using hx)
    refine this.mono (fun a => by simp) (fun a => ?_)
    show hOne a h + hcount a hs ≤ hcount a (h :: hs)
    rw [hcount_cons]; simp [hOne]; omega

/-- Changing the per-entity reactor list of one entity: the handles it held are handed to the caller (credit), the new
    ones are taken from the caller (spend). -/
theorem arc_setEnt (s : St) (e : Nat) (v : Option (List (RType × Handle))) :
    ArcStep (fun a => hcount a (entHandles s e))
      (fun a => hcount a (optHandles v))
      s ({ s with entReactors := upd s.entReactors e v } : St) := by
  refine ⟨?_, Nat.le_refl _, fun a _ h0 => h0, fun a ha => Or.inl ha, fun a ha => ha⟩
  intro B N a _
  refine ⟨B, max N (e + 1), Nat.le_refl _, Nat.le_max_left _ _, ?_⟩
  have hlt : e < max N (e + 1) := by omega
  have hmono := holders_mono a ({ s with entReactors := upd s.entReactors e v } : St) (Nat.le_refl B) (Nat.le_max_left N (e + 1))
  have hupd := sumTo_update (n := max N (e + 1)) (fun x => hcount a (entHandles s x))
    (fun x => hcount a (entHandles ({ s with entReactors := upd s.entReactors e v } : St) x)) e hlt
    (fun j hj => by simp [entHandles, upd, hj])
  have hnew : hcount a (entHandles ({ s with entReactors := upd s.entReactors e v } : St) e) = hcount a (optHandles v) := by
    simp [entHandles, upd]
  have e1 : holders B (max N (e + 1)) a ({ s with entReactors := upd s.entReactors e v } : St) =
      sumTo B (tblAt a s) + sumTo (max N (e + 1)) (fun x => hcount a (s.tblDsp x)) +
      sumTo (max N (e + 1)) (fun x => hcount a (entHandles ({ s with entReactors := upd s.entReactors e v } : St) x)) +
      cmdsH a s.wq + stackH a s.stack + trkH a s := rfl
  have e2 : holders B (max N (e + 1)) a s =
      sumTo B (tblAt a s) + sumTo (max N (e + 1)) (fun x => hcount a (s.tblDsp x)) +
      sumTo (max N (e + 1)) (fun x => hcount a (entHandles s x)) + cmdsH a s.wq + stackH a s.stack + trkH a s := rfl
  rw [e1] at hmono
  rw [e2]
  show holders B N a _ + s.arcRc a + hcount a (entHandles s e) ≤ _ + hcount a (optHandles v) + s.arcRc a
  rw [hnew] at hupd
  omega

end Cobweb

namespace Cobweb

/-- Wrapper: a step that keeps counts, arcs and user signals, given the relation between the holders. -/
theorem arc_of_holders {s s' : St} {c t : Nat → Nat} (hrc : s'.arcRc = s.arcRc) (hnext : s'.nextArc = s.nextArc)
    (hsigs : s'.sigs = s.sigs)
    (hh : ∀ B N a, ∃ B' N', B ≤ B' ∧ N ≤ N' ∧ holders B N a s' + c a ≤ holders B' N' a s + t a) : ArcStep c t s s' := by
  refine ⟨?_, by rw [hnext]; exact Nat.le_refl _, fun a _ h0 => by rw [hrc]; exact h0,
    fun a ha => Or.inl (by rw [← hsigs]; exact ha), fun a ha => by rw [hsigs]; exact ha⟩
  intro B N a _
  obtain ⟨B', N', h1, h2, h3⟩ := hh B N a
  exact ⟨B', N', h1, h2, by rw [hrc]; omega⟩

/-- Replacing the despawn-reactor list of one entity. -/
theorem arc_setDsp {s s' : St} (e : Nat) (l : List Handle) (hd : s'.tblDsp = upd s.tblDsp e l) (htbl : s'.tbl = s.tbl)
    (hent : s'.entReactors = s.entReactors) (htrk : s'.trkDsp = s.trkDsp) (hwq : s'.wq = s.wq) (hst : s'.stack = s.stack)
    (hrc : s'.arcRc = s.arcRc) (hnext : s'.nextArc = s.nextArc) (hsigs : s'.sigs = s.sigs) :
    ArcStep (fun a => hcount a (s.tblDsp e)) (fun a => hcount a l) s s' := by
  refine arc_of_holders hrc hnext hsigs (fun B N a => ⟨B, max N (e + 1), Nat.le_refl _, Nat.le_max_left _ _, ?_⟩)
  have hlt : e < max N (e + 1) := by omega
  have hmono := holders_mono a s' (Nat.le_refl B) (Nat.le_max_left N (e + 1))
  have hupd := sumTo_update (n := max N (e + 1)) (fun x => hcount a (s.tblDsp x)) (fun x => hcount a (s'.tblDsp x)) e hlt
    (fun j hj => by simp [hd, upd, hj])
  have hnew : hcount a (s'.tblDsp e) = hcount a l := by simp [hd, upd]
  have e1 : tblAt a s' = tblAt a s := by funext ty; simp [tblAt, htbl]
  have e3 : (fun x => hcount a (entHandles s' x)) = (fun x => hcount a (entHandles s x)) := by funext x; simp [entHandles, hent]
  have e4 : trkH a s' = trkH a s := by simp [trkH, htrk]
  simp only [holders, e1, e3, e4, hwq, hst] at hmono ⊢
  rw [hnew] at hupd
  omega

theorem tblAt_set (a : Nat) (s s' : St) (t : Tbl) (ty : Nat) (l : List Handle) (h : s'.tbl = (setTbl s t ty l).tbl) :
    (∀ ty', ty' ≠ ty → tblAt a s' ty' = tblAt a s ty') ∧ tblAt a s' ty + hcount a (s.tbl t ty) = tblAt a s ty + hcount a l := by
  constructor
  · intro ty' hne
    simp only [tblAt, h, setTbl, hne, and_false, ↓reduceIte]
  · simp only [tblAt, h, setTbl]
    cases t <;> simp <;> omega

/-- Replacing one type-wide registration list. -/
theorem arc_setTbl {s s' : St} (t : Tbl) (ty : Nat) (l : List Handle) (htbl : s'.tbl = (setTbl s t ty l).tbl)
    (hd : s'.tblDsp = s.tblDsp) (hent : s'.entReactors = s.entReactors) (htrk : s'.trkDsp = s.trkDsp) (hwq : s'.wq = s.wq)
    (hst : s'.stack = s.stack) (hrc : s'.arcRc = s.arcRc) (hnext : s'.nextArc = s.nextArc) (hsigs : s'.sigs = s.sigs) :
    ArcStep (fun a => hcount a (s.tbl t ty)) (fun a => hcount a l) s s' := by
  refine arc_of_holders hrc hnext hsigs (fun B N a => ⟨max B (ty + 1), N, Nat.le_max_left _ _, Nat.le_refl _, ?_⟩)
  have hlt : ty < max B (ty + 1) := by omega
  have hmono := holders_mono a s' (Nat.le_max_left B (ty + 1)) (Nat.le_refl N)
  obtain ⟨hother, hat⟩ := tblAt_set a s s' t ty l htbl
  have hupd := sumTo_update (n := max B (ty + 1)) (tblAt a s) (tblAt a s') ty hlt hother
  have e2 : (fun x => hcount a (s'.tblDsp x)) = (fun x => hcount a (s.tblDsp x)) := by funext x; rw [hd]
  have e3 : (fun x => hcount a (entHandles s' x)) = (fun x => hcount a (entHandles s x)) := by funext x; simp [entHandles, hent]
  have e4 : trkH a s' = trkH a s := by simp [trkH, htrk]
  simp only [holders, e2, e3, e4, hwq, hst] at hmono ⊢
  omega

end Cobweb

namespace Cobweb

/-- All arc-relevant fields coincide. -/
structure ArcEq (s s' : St) : Prop where
  hold : HoldSame s s'
  rc : s'.arcRc = s.arcRc
  next : s'.nextArc = s.nextArc
  sigs : s'.sigs = s.sigs

theorem ArcEq.refl (s : St) : ArcEq s s := ⟨⟨rfl, rfl, rfl, rfl, rfl, rfl⟩, rfl, rfl, rfl⟩

theorem ArcStep.right {s s1 s2 : St} {c t : Nat → Nat} (h : ArcStep c t s s1) (e : ArcEq s1 s2) : ArcStep c t s s2 := by
  refine ⟨?_, by rw [e.next]; exact h.next, fun a ha h0 => by rw [e.rc]; exact h.old a (by rw [← e.next]; exact ha) h0,
    fun a ha => by rw [e.next]; exact h.sigs a (by rw [← e.sigs]; exact ha), fun a ha => by rw [e.sigs]; exact h.keep a ha⟩
  intro B N a ha
  obtain ⟨B', N', h1, h2, h3⟩ := h.bal B N a ha
  exact ⟨B', N', h1, h2, by rw [holders_holdSame e.hold, e.rc]; exact h3⟩

theorem ArcStep.left {s s1 s2 : St} {c t : Nat → Nat} (e : ArcEq s s1) (h : ArcStep c t s1 s2) : ArcStep c t s s2 := by
  refine ⟨?_, by rw [← e.next]; exact h.next, fun a ha h0 => h.old a ha (by rw [e.rc]; exact h0),
    fun a ha => by rw [← e.sigs, ← e.next]; exact h.sigs a ha, fun a ha => h.keep a (by rw [e.sigs]; exact ha)⟩
  intro B N a ha
  obtain ⟨B', N', h1, h2, h3⟩ := h.bal B N a (by rw [e.sigs]; exact ha)
  exact ⟨B', N', h1, h2, by rw [holders_holdSame e.hold, e.rc] at h3; exact h3⟩

theorem ArcStep.cancel {s s' : St} {c t : Nat → Nat} (h : ArcStep c t s s') (k : Nat → Nat) (hk : ∀ a, k a ≤ c a ∧ k a ≤ t a) :
    ArcStep (fun a => c a - k a) (fun a => t a - k a) s s' := by
  refine ⟨?_, h.next, h.old, h.sigs, h.keep⟩
  intro B N a ha
  obtain ⟨B', N', h1, h2, h3⟩ := h.bal B N a ha
  exact ⟨B', N', h1, h2, by have := hk a; dsimp only; omega⟩

theorem ArcStep.zero {s s' : St} {c t : Nat → Nat} (h : ArcStep c t s s') (hct : ∀ a, t a ≤ c a) :
    ArcStep (fun _ => 0) (fun _ => 0) s s' := by
  refine ⟨?_, h.next, h.old, h.sigs, h.keep⟩
  intro B N a ha
  obtain ⟨B', N', h1, h2, h3⟩ := h.bal B N a ha
  exact ⟨B', N', h1, h2, by have := hct a; omega⟩

theorem arc_killReactors (s : St) (e : Nat) : ArcStep (fun _ => 0) (fun _ => 0) s (killReactors s e) := by
  unfold killReactors
  cases hl : s.entReactors e with
  | none => exact ArcStep.refl s
  | some l =>
    dsimp only
    have h1 := arc_setEnt s e none
    have h2 := arc_dropHandles ({ s with entReactors := upd s.entReactors e none } : St) (l.map (·.2))
    refine (ArcStep.trans h1 h2 (fun x hx => hx)).zero (fun a => ?_)
    simp [entHandles, hl, optHandles]

theorem arc_kill (s : St) (e : Nat) : ArcStep (fun _ => 0) (fun _ => 0) s (kill s e) := by
  have e1 : ArcEq s (killStorage (killCanary s e) e) := ⟨⟨by simp, by simp, by simp, by simp, by simp, by simp⟩, by simp, by simp, by simp⟩
  have h := arc_killReactors (killStorage (killCanary s e) e) e
  refine (ArcStep.left e1 h).right ?_
  unfold kill
  exact ⟨⟨by simp, by simp, by simp, by simp, by simp, by simp⟩, by simp, by simp, by simp⟩

theorem arc_despawn1 (s : St) (e : Nat) : ArcStep (fun _ => 0) (fun _ => 0) s (despawn1 s e) := by
  unfold despawn1; split
  · exact arc_kill s e
  · exact ArcStep.refl s

end Cobweb

namespace Cobweb

theorem arc_tryCleanupData (s : St) (d : Nat) : ArcStep (fun _ => 0) (fun _ => 0) s (tryCleanupData s d) := by
  unfold tryCleanupData
  split
  · split
    · split
      · exact ArcStep.refl s
      · rename_i x _ _
        dsimp only
        have e0 : ArcEq s ({ s with data := upd s.data d (some { x with cnt := x.cnt - 1 }) } : St) :=
          ⟨⟨rfl, rfl, rfl, rfl, rfl, rfl⟩, rfl, rfl, rfl⟩
        split
        · exact ArcStep.left e0 (arc_kill _ d)
        · exact (ArcStep.refl s).right e0
    · exact ArcStep.refl s
  · exact ArcStep.refl s

/-- Only the despawn tracker changes. -/
theorem arc_setTrk {s s' : St} (htbl : s'.tbl = s.tbl) (hd : s'.tblDsp = s.tblDsp) (hent : s'.entReactors = s.entReactors)
    (hwq : s'.wq = s.wq) (hst : s'.stack = s.stack) (hrc : s'.arcRc = s.arcRc) (hnext : s'.nextArc = s.nextArc)
    (hsigs : s'.sigs = s.sigs) : ArcStep (fun a => trkH a s) (fun a => trkH a s') s s' := by
  refine arc_of_holders hrc hnext hsigs (fun B N a => ⟨B, N, Nat.le_refl _, Nat.le_refl _, ?_⟩)
  have e1 : tblAt a s' = tblAt a s := by funext ty; simp [tblAt, htbl]
  have e2 : (fun x => hcount a (s'.tblDsp x)) = (fun x => hcount a (s.tblDsp x)) := by funext x; rw [hd]
  have e3 : (fun x => hcount a (entHandles s' x)) = (fun x => hcount a (entHandles s x)) := by funext x; simp [entHandles, hent]
  simp only [holders, e1, e2, e3, hwq, hst]
  omega

def optOne (a : Nat) : Option Handle → Nat
  | some h => hOne a h
  | none => 0

theorem trkH_eq (a : Nat) (s : St) : trkH a s = hcount a (s.trkDsp.prepared.map (·.2.2)) + optOne a s.trkDsp.curHandle := by
  unfold trkH optOne; cases s.trkDsp.curHandle <;> rfl

/-- `DespawnAccessTracker::start`: a prepared handle becomes the current one; the previous current handle is handed out. -/
theorem TrkDsp.start_handles (t : TrkDsp) (sys src : Nat) (hd : Handle) (a : Nat) :
    hcount a ((t.start sys src hd).1.prepared.map (·.2.2)) + optOne a (t.start sys src hd).1.curHandle + optOne a (t.start sys src hd).2 =
      hcount a (t.prepared.map (·.2.2)) + optOne a t.curHandle := by
  by_cases hm : (sys, src, hd) ∈ t.prepared
  · obtain ⟨_, _, h3, h4, h5⟩ := TrkDsp.start_claims_own t sys src hd hm
    rw [h3, h4, h5]
    have hp := ((List.perm_cons_erase hm).map (fun p : Nat × Nat × Handle => p.2.2)).countP_eq (fun h => h.arc == some a)
    simp only [hcount] at *
    rw [hp]
    simp only [List.map_cons, List.countP_cons, optOne, hOne]
    by_cases hx : hd.arc = some a
    · simp [hx]
    · simp [hx]
  · rw [TrkDsp.start_none t sys src hd hm]; simp [optOne]

end Cobweb

namespace Cobweb

theorem arc_dropOpt (s : St) (o : Option Handle) :
    ArcStep (fun _ => 0) (fun a => optOne a o) s (match o with | some h => dropHandle s h | none => s) := by
  cases o with
  | none => exact (ArcStep.refl s).mono (fun _ => Nat.le_refl _) (fun _ => Nat.zero_le _)
  | some h => exact arc_dropHandle s h

theorem arc_setupK (s : St) (k : Kind) (sys : Nat) : ArcStep (fun _ => 0) (fun _ => 0) s (setupK s k sys) := by
  cases k <;> simp only [setupK]
  · exact ArcStep.refl s
  · exact (ArcStep.refl s).right ⟨⟨rfl, rfl, rfl, rfl, rfl, rfl⟩, rfl, rfl, rfl⟩
  · exact (ArcStep.refl s).right ⟨⟨rfl, rfl, rfl, rfl, rfl, rfl⟩, rfl, rfl, rfl⟩
  · rename_i src hd
    have h1 : ArcStep (fun a => trkH a s) (fun a => trkH a ({ s with trkDsp := (s.trkDsp.start sys src hd).1 } : St)) s
        ({ s with trkDsp := (s.trkDsp.start sys src hd).1 } : St) := arc_setTrk rfl rfl rfl rfl rfl rfl rfl rfl
    have h2 := arc_dropOpt ({ s with trkDsp := (s.trkDsp.start sys src hd).1 } : St) (s.trkDsp.start sys src hd).2
    refine (ArcStep.trans h1 h2 (fun x hx => hx)).zero (fun a => ?_)
    have := TrkDsp.start_handles s.trkDsp sys src hd a
    simp only [trkH_eq]
    omega
  · exact (ArcStep.refl s).right ⟨⟨rfl, rfl, rfl, rfl, rfl, rfl⟩, rfl, rfl, rfl⟩
  · exact (ArcStep.refl s).right ⟨⟨rfl, rfl, rfl, rfl, rfl, rfl⟩, rfl, rfl, rfl⟩

theorem arc_cleanupK (s : St) (k : Kind) : ArcStep (fun _ => 0) (fun _ => 0) s (cleanupK s k) := by
  cases k <;> simp only [cleanupK]
  · exact ArcStep.refl s
  · exact ArcStep.left (s1 := ({ s with trkSys := { s.trkSys with reacting := false } } : St)) ⟨⟨rfl, rfl, rfl, rfl, rfl, rfl⟩, rfl, rfl, rfl⟩
      (arc_despawn1 _ _)
  · exact (ArcStep.refl s).right ⟨⟨rfl, rfl, rfl, rfl, rfl, rfl⟩, rfl, rfl, rfl⟩
  · have h1 : ArcStep (fun a => trkH a s)
        (fun a => trkH a ({ s with trkDsp := { s.trkDsp with reacting := false, curHandle := none } } : St)) s
        ({ s with trkDsp := { s.trkDsp with reacting := false, curHandle := none } } : St) :=
      arc_setTrk rfl rfl rfl rfl rfl rfl rfl rfl
    have h2 := arc_dropOpt ({ s with trkDsp := { s.trkDsp with reacting := false, curHandle := none } } : St) s.trkDsp.curHandle
    refine (ArcStep.trans h1 h2 (fun x hx => hx)).zero (fun a => ?_)
    simp only [trkH_eq, optOne]
    omega
  · exact ArcStep.left (s1 := ({ s with trkEnt := { s.trkEnt with reacting := false }, trkEvt := { s.trkEvt with reacting := false } } : St))
      ⟨⟨rfl, rfl, rfl, rfl, rfl, rfl⟩, rfl, rfl, rfl⟩ (arc_tryCleanupData _ _)
  · exact ArcStep.left (s1 := ({ s with trkEvt := { s.trkEvt with reacting := false } } : St))
      ⟨⟨rfl, rfl, rfl, rfl, rfl, rfl⟩, rfl, rfl, rfl⟩ (arc_tryCleanupData _ _)

end Cobweb

namespace Cobweb

theorem removeFirst_hcount (a : Nat) (p : Handle → Bool) (l : List Handle) :
    hcount a l = hcount a (removeFirst p l).2 + optOne a (removeFirst p l).1 := by
  induction l with
  | nil => simp [removeFirst, optOne]
  | cons h l ih =>
    unfold removeFirst
    split
    · simp [hcount_cons, optOne, hOne]
    · simp only [hcount_cons]
      rw [ih]; omega

theorem filter_hcount (a : Nat) (q : RType × Handle → Bool) (l : List (RType × Handle)) :
    hcount a (l.map (·.2)) = hcount a ((l.filter q).map (·.2)) + hcount a ((l.filter (fun x => !q x)).map (·.2)) := by
  induction l with
  | nil => simp
  | cons x l ih =>
    simp only [List.map_cons, hcount_cons, List.filter_cons]
    cases hq : q x <;> simp [hq, hcount_cons] <;> omega

theorem arc_revokeOne (s : St) (sys : Nat) (t : Trig) : ArcStep (fun _ => 0) (fun _ => 0) s (revokeOne s sys t) := by
  unfold revokeOne
  split
  · -- despawn trigger
    rename_i e
    dsimp only
    have h1 : ArcStep (fun a => hcount a (s.tblDsp e)) (fun a => hcount a (removeFirst (fun h => h.sys == sys) (s.tblDsp e)).2) s
        ({ s with tblDsp := upd s.tblDsp e (removeFirst (fun h => h.sys == sys) (s.tblDsp e)).2 } : St) :=
      arc_setDsp e _ rfl rfl rfl rfl rfl rfl rfl rfl rfl
    have h2 := arc_dropOpt ({ s with tblDsp := upd s.tblDsp e (removeFirst (fun h => h.sys == sys) (s.tblDsp e)).2 } : St)
      (removeFirst (fun h => h.sys == sys) (s.tblDsp e)).1
    refine (ArcStep.trans h1 h2 (fun x hx => hx)).zero (fun a => ?_)
    have := removeFirst_hcount a (fun h => h.sys == sys) (s.tblDsp e)
    omega
  · split
    · rename_i rt e _
      split
      · rename_i l hl
        have h1 := arc_setEnt s e (some (l.filter (fun p => !(p.1 == rt && p.2.sys == sys))))
        have h2 := arc_dropHandles ({ s with entReactors := upd s.entReactors e (some (l.filter (fun p => !(p.1 == rt && p.2.sys == sys)))) } : St)
          ((l.filter (fun p => p.1 == rt && p.2.sys == sys)).map (·.2))
        refine (ArcStep.trans h1 h2 (fun x hx => hx)).zero (fun a => ?_)
        have := filter_hcount a (fun p => p.1 == rt && p.2.sys == sys) l
        simp only [entHandles, hl, optHandles]
        omega
      · exact ArcStep.refl s
    · split
      · rename_i tb ty _
        dsimp only
        have h1 : ArcStep (fun a => hcount a (s.tbl tb ty)) (fun a => hcount a (removeFirst (fun h => h.sys == sys) (s.tbl tb ty)).2) s
            (setTbl s tb ty (removeFirst (fun h => h.sys == sys) (s.tbl tb ty)).2) :=
          arc_setTbl tb ty _ rfl rfl rfl rfl rfl rfl rfl rfl rfl
        have h2 := arc_dropOpt (setTbl s tb ty (removeFirst (fun h => h.sys == sys) (s.tbl tb ty)).2)
          (removeFirst (fun h => h.sys == sys) (s.tbl tb ty)).1
        refine (ArcStep.trans h1 h2 (fun x hx => hx)).zero (fun a => ?_)
        have := removeFirst_hcount a (fun h => h.sys == sys) (s.tbl tb ty)
        omega
      · exact ArcStep.refl s

theorem arc_revokeAll (s : St) (sys : Nat) (ts : List Trig) : ArcStep (fun _ => 0) (fun _ => 0) s (revokeAll s sys ts) := by
  unfold revokeAll
  induction ts generalizing s with
  | nil => exact ArcStep.refl s
  | cons t ts ih =>
    simp only [List.foldl_cons]
    exact (ArcStep.trans (arc_revokeOne s sys t) (ih _) (fun x hx => by simpa using hx)).zero (fun _ => Nat.le_refl _)

end Cobweb

namespace Cobweb

@[simp] theorem cmdH_regType (a : Nat) (t : Tbl) (ty : Nat) (h : Handle) : cmdH a (.regType t ty h) = hOne a h := by
  simp [cmdH, Cmd.handles, hcount_cons, hOne]
@[simp] theorem cmdH_regEnt (a : Nat) (rt : RType) (e : Nat) (h : Handle) : cmdH a (.regEnt rt e h) = hOne a h := by
  simp [cmdH, Cmd.handles, hcount_cons, hOne]
@[simp] theorem cmdH_regDsp (a : Nat) (e : Nat) (h : Handle) : cmdH a (.regDsp e h) = hOne a h := by
  simp [cmdH, Cmd.handles, hcount_cons, hOne]
@[simp] theorem cmdH_reactDsp (a : Nat) (src sys : Nat) (h : Handle) : cmdH a (.reactDsp src sys h) = hOne a h := by
  simp [cmdH, Cmd.handles, hcount_cons, hOne]

theorem regCmds_arcRc (s : St) (h : Handle) (t : Trig) (a : Nat) :
    (regCmds s h t).1.arcRc a = s.arcRc a + cmdsH a (regCmds s h t).2 := by
  unfold regCmds
  split
  · split
    · simp [cloneHandle_arcRc]
    · simp
  · simp [cloneHandle_arcRc, cmdH, Cmd.handles, hcount_cons, hOne]
  · split
    · simp [cloneHandle_arcRc]
    · split
      · simp [cloneHandle_arcRc]
      · simp

theorem regAll_arcRc (s : St) (h : Handle) (ts : List Trig) (a : Nat) :
    (regAll s h ts).1.arcRc a = s.arcRc a + cmdsH a (regAll s h ts).2 := by
  induction ts generalizing s with
  | nil => simp [regAll]
  | cons t ts ih =>
    unfold regAll; dsimp only
    rw [ih, regCmds_arcRc, cmdsH_append]; omega

end Cobweb

namespace Cobweb

theorem regCmds_cmdsH_other (s : St) (h : Handle) (t : Trig) (a : Nat) (hne : h.arc ≠ some a) : cmdsH a (regCmds s h t).2 = 0 := by
  have h0 : hOne a h = 0 := by simp [hOne, hne]
  unfold regCmds
  split
  · split <;> simp [h0]
  · simp [cmdH, Cmd.handles, hcount_cons, hne]
  · split
    · simp [h0]
    · split <;> simp [h0]

theorem regAll_cmdsH_other (s : St) (h : Handle) (ts : List Trig) (a : Nat) (hne : h.arc ≠ some a) : cmdsH a (regAll s h ts).2 = 0 := by
  induction ts generalizing s with
  | nil => simp [regAll]
  | cons t ts ih =>
    unfold regAll; dsimp only
    rw [cmdsH_append, regCmds_cmdsH_other s h t a hne, ih]

/-- A step that leaves the arc-relevant state alone and pushes frames without handles. -/
theorem arc_push_plain {s s' : St} (h : ArcSame s s') (hwq : s'.wq = s.wq) (fs : List Frame) (hst : s'.stack = fs ++ s.stack)
    (hfs : ∀ a, stackH a fs = 0) : ArcStep (fun _ => 0) (fun _ => 0) s s' :=
  step_of_same h (fun a => by simp only [queueH, hwq, hst, stackH_append, hfs a]; omega)

theorem cmdsH_map_zero {α : Type} (a : Nat) (l : List α) (f : α → Cmd) (h : ∀ x, cmdH a (f x) = 0) : cmdsH a (l.map f) = 0 := by
  induction l with
  | nil => rfl
  | cons x l ih => simp [h x, ih]

end Cobweb

namespace Cobweb

/-- `register_reactors`: a new arc (unless persistent) with exactly as many clones as sub-commands. -/
theorem arc_register (s : St) (trigs : List Trig) (sys : Nat) (mode : Mode) (hf : s.arcRc s.nextArc = 0) :
    ArcStep (fun _ => 0) (fun _ => 0) s (applyCmd s (.register trigs sys mode)) := by
  -- the holders after pushing the sub-commands, for an arbitrary handle `h`, start state `s1` and end state `s3`
  have core : ∀ (s1 : St) (h : Handle) (s3 : St), HoldSame s s1 → HoldSame (regAll s1 h trigs).1 s3 →
      ∀ a B N, holders B N a (s3.push [.flush, .batch (regAll s1 h trigs).2]) = holders B N a s + cmdsH a (regAll s1 h trigs).2 := by
    intro s1 h s3 hs hs3 a B N
    have hs2 : HoldSame s1 (regAll s1 h trigs).1 := ⟨by simp, by simp, by simp, by simp, by simp, by simp⟩
    have e1 : tblAt a (s3.push [.flush, .batch (regAll s1 h trigs).2]) = tblAt a s := by
      funext ty; simp [tblAt, St.push, hs3.tbl, hs2.tbl, hs.tbl]
    have e2 : (fun x => hcount a ((s3.push [.flush, .batch (regAll s1 h trigs).2]).tblDsp x)) = (fun x => hcount a (s.tblDsp x)) := by
      funext x; simp [St.push, hs3.dsp, hs2.dsp, hs.dsp]
    have e3 : (fun x => hcount a (entHandles (s3.push [.flush, .batch (regAll s1 h trigs).2]) x)) = (fun x => hcount a (entHandles s x)) := by
      funext x; simp [entHandles, St.push, hs3.ent, hs2.ent, hs.ent]
    have e4 : trkH a (s3.push [.flush, .batch (regAll s1 h trigs).2]) = trkH a s := by
      simp [trkH, St.push, hs3.trk, hs2.trk, hs.trk]
    simp only [holders, e1, e2, e3, e4]
    simp [St.push, hs3.wq, hs2.wq, hs.wq, hs3.stack, hs2.stack, hs.stack, frameH]
    omega
  have arcful : ArcStep (fun _ => 0) (fun _ => 0) s
      ((dropHandle (regAll (newArc s sys).2 ⟨sys, some (newArc s sys).1⟩ trigs).1 ⟨sys, some (newArc s sys).1⟩).push
        [.flush, .batch (regAll (newArc s sys).2 ⟨sys, some (newArc s sys).1⟩ trigs).2]) := by
    have hrc : ∀ a, ((dropHandle (regAll (newArc s sys).2 ⟨sys, some (newArc s sys).1⟩ trigs).1 ⟨sys, some (newArc s sys).1⟩).push
        [.flush, .batch (regAll (newArc s sys).2 ⟨sys, some (newArc s sys).1⟩ trigs).2]).arcRc a =
        (if a = s.nextArc then 1 else s.arcRc a) + cmdsH a (regAll (newArc s sys).2 ⟨sys, some (newArc s sys).1⟩ trigs).2 -
          (if a = s.nextArc then 1 else 0) := by
      intro a
      show (dropHandle _ _).arcRc a = _
      rw [dropHandle_arcRc, regAll_arcRc]
      simp only [newArc, upd]
      by_cases ha : a = s.nextArc
      · subst ha; simp
      · have : ¬ s.nextArc = a := fun h' => ha h'.symm
        simp [ha, this]
    refine ⟨?_, by simp [St.push, newArc], fun a ha h0 => ?_, fun a ha => Or.inl (by simpa [St.push, newArc] using ha),
      fun a ha => by simpa [St.push, newArc] using ha⟩
    · intro B N a _
      refine ⟨B, N, Nat.le_refl _, Nat.le_refl _, ?_⟩
      rw [core (newArc s sys).2 ⟨sys, some (newArc s sys).1⟩ _ ⟨rfl, rfl, rfl, rfl, rfl, rfl⟩
        ⟨by simp, by simp, by simp, by simp, by simp, by simp⟩ a B N, hrc a]
      by_cases ha : a = s.nextArc
      · subst ha; simp [hf]
      · have h0 := regAll_cmdsH_other (newArc s sys).2 ⟨sys, some (newArc s sys).1⟩ trigs a (by simp [newArc]; exact fun h' => ha h'.symm)
        simp [ha, h0]
    · rw [hrc a]
      have hne : a ≠ s.nextArc := by simp [St.push, newArc] at ha; omega
      have h1 := regAll_cmdsH_other (newArc s sys).2 ⟨sys, some (newArc s sys).1⟩ trigs a (by simp [newArc]; exact fun h' => hne h'.symm)
      simp [hne, h1, h0]
  cases mode with
  | persistent =>
    simp only [applyCmd]
    refine ⟨?_, by simp [St.push], fun a _ h0 => ?_, fun a ha => Or.inl (by simpa [St.push] using ha), fun a ha => by simpa [St.push] using ha⟩
    · intro B N a _
      refine ⟨B, N, Nat.le_refl _, Nat.le_refl _, ?_⟩
      rw [core s ⟨sys, none⟩ _ ⟨rfl, rfl, rfl, rfl, rfl, rfl⟩ ⟨rfl, rfl, rfl, rfl, rfl, rfl⟩ a B N]
      have := regAll_arcRc s ⟨sys, none⟩ trigs a
      simp only [St.push] at this ⊢
      omega
    · have := regAll_arcRc s ⟨sys, none⟩ trigs a
      have h2 := regAll_cmdsH_other s ⟨sys, none⟩ trigs a (by simp)
      simp only [St.push]; omega
  | cleanup => simp only [applyCmd]; exact arcful
  | revokable => simp only [applyCmd]; exact arcful

end Cobweb

namespace Cobweb

macro "asame" : tactic =>
  `(tactic| exact ⟨by simp [St.push, St.emit, St.fresh], by simp [St.push, St.emit, St.fresh], by simp [St.push, St.emit, St.fresh],
      by simp [St.push, St.emit, St.fresh], by simp [St.push, St.emit, St.fresh], by simp [St.push, St.emit, St.fresh],
      by simp [St.push, St.emit, St.fresh]⟩)

theorem arc_zero_spend {s s' : St} {t : Nat → Nat} (h : ArcStep (fun _ => 0) (fun _ => 0) s s') :
    ArcStep (fun _ => 0) t s s' := h.mono (fun _ => Nat.le_refl _) (fun _ => Nat.zero_le _)

/-- Applying one command that was popped from a batch: it spends the handle it carried. -/
theorem arc_applyCmd (s : St) (c : Cmd) (hf : s.arcRc s.nextArc = 0) :
    ArcStep (fun _ => 0) (fun a => cmdH a c) s (applyCmd s c) := by
  have plain : ∀ (s' : St) (fs : List Frame), ArcSame s s' → s'.wq = s.wq → s'.stack = fs ++ s.stack → (∀ a, stackH a fs = 0) →
      ArcStep (fun _ => 0) (fun a => cmdH a c) s s' :=
    fun s' fs h1 h2 h3 h4 => arc_zero_spend (arc_push_plain h1 h2 fs h3 h4)
  cases c <;> simp only [applyCmd]
  case marker m => exact plain _ [] (by asame) rfl rfl (fun _ => rfl)
  case run sys => exact plain _ [.runnerStart sys .plain] (by asame) rfl rfl (fun _ => rfl)
  case sysEvent sys d => exact plain _ [.runnerStart sys (.sysEv d)] (by asame) rfl rfl (fun _ => rfl)
  case reactRes sys => exact plain _ [.runnerStart sys .plain] (by asame) rfl rfl (fun _ => rfl)
  case reactEnt src rt sys => exact plain _ [.runnerStart sys (.entReact src rt)] (by asame) rfl rfl (fun _ => rfl)
  case reactDsp src sys h =>
    -- the handle moves from the command into the despawn tracker's prepared list
    have h1 : ArcStep (fun a => trkH a s)
        (fun a => trkH a ({ s with trkDsp := { s.trkDsp with prepared := s.trkDsp.prepared ++ [(sys, src, h)] } } : St)) s
        ({ s with trkDsp := { s.trkDsp with prepared := s.trkDsp.prepared ++ [(sys, src, h)] } } : St) :=
      arc_setTrk rfl rfl rfl rfl rfl rfl rfl rfl
    have h2 : ArcStep (fun _ => 0) (fun _ => 0)
        ({ s with trkDsp := { s.trkDsp with prepared := s.trkDsp.prepared ++ [(sys, src, h)] } } : St)
        (({ s with trkDsp := { s.trkDsp with prepared := s.trkDsp.prepared ++ [(sys, src, h)] } } : St).push [.runnerStart sys (.dspReact src h)]) :=
      arc_push_plain ⟨rfl, rfl, rfl, rfl, rfl, rfl, rfl⟩ rfl [.runnerStart sys (.dspReact src h)] rfl (fun _ => rfl)
    have h3 := ArcStep.trans h1 h2 (fun x hx => hx)
    have hk : ∀ a, trkH a ({ s with trkDsp := { s.trkDsp with prepared := s.trkDsp.prepared ++ [(sys, src, h)] } } : St) = trkH a s + hOne a h := by
      intro a; simp [trkH_eq, hcount_cons, hOne]; omega
    refine (h3.cancel (fun a => trkH a s) (fun a => ⟨by simp, by simp [hk a]⟩)).mono (fun a => by simp) (fun a => ?_)
    simp [hk a]
  case reactEv target d sys => exact plain _ [.runnerStart sys (.entEv target d)] (by asame) rfl rfl (fun _ => rfl)
  case reactBc d sys => exact plain _ [.runnerStart sys (.bcEv d)] (by asame) rfl rfl (fun _ => rfl)
  case spawnStorage sys => split <;> exact plain _ [] (by asame) rfl rfl (fun _ => rfl)
  case insertOnce sys => split <;> exact plain _ [] (by asame) rfl rfl (fun _ => rfl)
  case spawnData d x => split <;> exact plain _ [] (by asame) rfl rfl (fun _ => rfl)
  case broadcast ty pid =>
    split
    · exact plain _ [] (by asame) rfl rfl (fun _ => rfl)
    · refine plain _ [.flush, .batch _] (by asame) rfl rfl (fun a => ?_)
      simp [frameH, cmdH, Cmd.handles]
      exact cmdsH_map_zero a _ _ (fun _ => rfl)
  case entityEvent e ty pid =>
    split
    · exact plain _ [] (by asame) rfl rfl (fun _ => rfl)
    · refine plain _ [.flush, .batch _] (by asame) rfl rfl (fun a => ?_)
      simp [frameH, cmdH, Cmd.handles]
      exact ⟨cmdsH_map_zero a _ _ (fun _ => rfl), cmdsH_map_zero a _ _ (fun _ => rfl)⟩
  case resMut ty =>
    refine plain _ [.flush, .batch _] (by asame) rfl rfl (fun a => ?_)
    simp [frameH]; exact cmdsH_map_zero a _ _ (fun _ => rfl)
  case tryInsert e ty v => split <;> exact plain _ [] (by asame) rfl rfl (fun _ => rfl)
  case insReact e ty =>
    split
    · exact plain _ [] (by asame) rfl rfl (fun _ => rfl)
    · refine plain _ [.flush, .batch _] (by asame) rfl rfl (fun a => ?_)
      simp [frameH]; exact ⟨cmdsH_map_zero a _ _ (fun _ => rfl), cmdsH_map_zero a _ _ (fun _ => rfl)⟩
  case mutReact e ty =>
    refine plain _ [.flush, .batch _] (by asame) rfl rfl (fun a => ?_)
    simp [frameH]; exact ⟨cmdsH_map_zero a _ _ (fun _ => rfl), cmdsH_map_zero a _ _ (fun _ => rfl)⟩
  case register trigs sys mode => exact arc_zero_spend (arc_register s trigs sys mode hf)
  case regType t ty h =>
    have key : ∀ s1 : St, ArcEq s s1 → s1.tbl = s.tbl →
        ArcStep (fun _ => 0) (fun a => cmdH a (.regType t ty h)) s (setTbl s1 t ty (s1.tbl t ty ++ [h])) := by
      intro s1 e1 ht
      have h1 : ArcStep (fun a => hcount a (s1.tbl t ty)) (fun a => hcount a (s1.tbl t ty ++ [h])) s1 (setTbl s1 t ty (s1.tbl t ty ++ [h])) :=
        arc_setTbl t ty _ rfl rfl rfl rfl rfl rfl rfl rfl rfl
      refine ArcStep.left e1 ((h1.cancel (fun a => hcount a (s1.tbl t ty)) (fun a => ⟨Nat.le_refl _, by simp⟩)).mono (fun a => by simp) (fun a => ?_))
      simp [hcount_cons, hOne]
    split
    · exact key _ ⟨⟨rfl, rfl, rfl, rfl, rfl, rfl⟩, rfl, rfl, rfl⟩ rfl
    · exact key _ (ArcEq.refl s) rfl
  case regEnt rt e h =>
    split
    · rename_i l hl
      have h1 := arc_setEnt s e (some (l ++ [(rt, h)]))
      refine (h1.cancel (fun a => hcount a (entHandles s e)) (fun a => ⟨Nat.le_refl _, ?_⟩)).mono (fun a => by simp) (fun a => ?_)
      · simp [entHandles, hl, optHandles]
      · simp [entHandles, hl, optHandles, hcount_cons, hOne]
    · rename_i hl
      split
      · have h1 := arc_setEnt s e (some [(rt, h)])
        refine h1.mono (fun a => by simp) (fun a => ?_)
        simp [optHandles, hcount_cons, hOne]
      · exact arc_dropHandle s h |>.mono (fun _ => Nat.le_refl _) (fun a => by simp)
  case regDsp e h =>
    split
    · have h1 : ArcStep (fun a => hcount a (s.tblDsp e)) (fun a => hcount a (s.tblDsp e ++ [h])) s
          ({ s with tblDsp := upd s.tblDsp e (s.tblDsp e ++ [h]), dspTracker := upd s.dspTracker e true } : St) :=
        arc_setDsp e _ rfl rfl rfl rfl rfl rfl rfl rfl rfl
      refine (h1.cancel (fun a => hcount a (s.tblDsp e)) (fun a => ⟨Nat.le_refl _, by simp⟩)).mono (fun a => by simp) (fun a => ?_)
      simp [hcount_cons, hOne]
    · exact arc_dropHandle s h |>.mono (fun _ => Nat.le_refl _) (fun a => by simp)
  case trackRemovals ty => split <;> exact plain _ [] (by asame) rfl rfl (fun _ => rfl)
  case revoke sys trigs => exact arc_zero_spend (arc_revokeAll s sys trigs)
  case despawn e => exact arc_zero_spend (arc_despawn1 s e)
  case despawnRec e => exact plain _ [.despawnWork [(e, false)]] (by asame) rfl rfl (fun _ => rfl)
  case removeComp e ty => split <;> exact plain _ [] (by asame) rfl rfl (fun _ => rfl)
  case cleanup k => exact arc_zero_spend (arc_cleanupK s k)
  case ewrInsertLocal e wr v => split <;> exact plain _ [] (by asame) rfl rfl (fun _ => rfl)
  case ewrCleanupData sys e wr => split <;> (try split) <;> exact plain _ [] (by asame) rfl rfl (fun _ => rfl)
  case ewrAdd e wr v sys =>
    split
    · refine plain _ [.flush, .batch _] (by asame) rfl rfl (fun a => ?_)
      simp [frameH, cmdH, Cmd.handles]
    · exact plain _ [] (by asame) rfl rfl (fun _ => rfl)

end Cobweb

namespace Cobweb

theorem cmdsH_map_reactDsp (a e : Nat) (l : List Handle) : cmdsH a (l.map (fun h => Cmd.reactDsp e h.sys h)) = hcount a l := by
  induction l with
  | nil => rfl
  | cons h l ih => simp [ih, hcount_cons, hOne]; omega

theorem arc_pollDspStep (acc : St × List Cmd) (e : Nat) :
    ArcStep (fun a => cmdsH a (pollDspStep acc e).2 - cmdsH a acc.2) (fun _ => 0) acc.1 (pollDspStep acc e).1 := by
  unfold pollDspStep
  have h1 : ArcStep (fun a => hcount a (acc.1.tblDsp e)) (fun a => hcount a ([] : List Handle)) acc.1
      ({ acc.1 with tblDsp := upd acc.1.tblDsp e [] } : St) := arc_setDsp e [] rfl rfl rfl rfl rfl rfl rfl rfl rfl
  refine h1.mono (fun a => ?_) (fun a => by simp)
  simp [cmdsH_map_reactDsp]

theorem arc_pollDsp_fold (es : List Nat) (acc : St × List Cmd) :
    ArcStep (fun a => cmdsH a (es.foldl pollDspStep acc).2 - cmdsH a acc.2) (fun _ => 0) acc.1 (es.foldl pollDspStep acc).1 := by
  induction es generalizing acc with
  | nil => exact (ArcStep.refl acc.1).mono (fun a => by simp) (fun _ => Nat.le_refl _)
  | cons e es ih =>
    simp only [List.foldl_cons]
    have h1 := arc_pollDspStep acc e
    have h2 := ih (pollDspStep acc e)
    refine (ArcStep.trans h1 h2 (fun x hx => by simpa [pollDspStep] using hx)).mono (fun a => ?_) (fun a => by simp)
    have m1 : cmdsH a acc.2 ≤ cmdsH a (pollDspStep acc e).2 := by simp [pollDspStep]
    omega

/-- `schedule_despawn_reactions`: the handles of the consumed lists are handed to the caller inside the commands. -/
theorem arc_pollDespawns (s : St) : ArcStep (fun a => cmdsH a (pollDespawns s).2) (fun _ => 0) s (pollDespawns s).1 := by
  unfold pollDespawns
  have h := arc_pollDsp_fold s.dspChan ({ s with dspChan := [] }, [])
  exact ArcStep.left (s1 := ({ s with dspChan := [] } : St)) ⟨⟨rfl, rfl, rfl, rfl, rfl, rfl⟩, rfl, rfl, rfl⟩
    (h.mono (fun a => by simp) (fun _ => Nat.le_refl _))

theorem arcEq_pollRemovals (s : St) : ArcEq s (pollRemovals s).1 :=
  ⟨⟨by simp, by simp, by simp, by simp, by simp, by simp⟩, by simp, by simp, by simp⟩

theorem cmdsH_removalCmds (a : Nat) (s : St) : cmdsH a (pollRemovals s).2 = 0 := by
  unfold pollRemovals
  have : ∀ (tys : List Nat) (acc : St × List Cmd), cmdsH a acc.2 = 0 → cmdsH a (tys.foldl pollRemStep acc).2 = 0 := by
    intro tys
    induction tys with
    | nil => intro acc h; exact h
    | cons ty tys ih =>
      intro acc h
      apply ih
      simp only [pollRemStep, cmdsH_append, h, Nat.zero_add]
      generalize acc.1.removedBuf ty = buf
      induction buf with
      | nil => rfl
      | cons e buf ihb =>
        simp only [List.flatMap_cons, cmdsH_append, ihb, removalCmdsFor]
        simp only [Nat.add_zero]
        rw [cmdsH_map_zero a _ _ (fun _ => rfl), cmdsH_map_zero a _ _ (fun _ => rfl)]
  exact this _ _ rfl

end Cobweb

namespace Cobweb

theorem arcSame_enqueue (s : St) (a : Act) : ArcSame s (enqueue s a).1 :=
  ⟨by simp, by simp, by simp, by simp, by simp, by simp, by simp⟩

theorem cmdsH_enqueue (x : Nat) (s : St) (a : Act) : cmdsH x (enqueue s a).2 = 0 := by
  cases a <;> simp only [enqueue] <;> (repeat' split) <;>
    first
    | rfl
    | (simp [cmdH, Cmd.handles]; done)
    | (simp [cmdH, Cmd.handles]; exact cmdsH_map_zero x _ _ (fun _ => rfl))

theorem foldl_emit_proj {α : Type} (g : St → α) (hg : ∀ (t : St) (e : Ev), g (t.emit e) = g t) (l : List Nat) (t : St) :
    g (l.foldl (fun (s : St) pid => s.emit (Ev.dropPayload pid)) t) = g t := by
  induction l generalizing t with
  | nil => rfl
  | cons x l ih => exact (ih _).trans (hg _ _)

theorem startBody_proj {α : Type} (g : St → α) (hemit : ∀ (t : St) (e : Ev), g (t.emit e) = g t)
    (hobs : ∀ (t : St) (w : Option Nat), g (observe t w).2 = g t) (hinfo : ∀ (t : St) (i : Nat → SysInfo), g ({ t with info := i } : St) = g t)
    (s : St) (sys : Nat) (k : Kind) : g (startBody s sys k) = g (setupK s k sys) := by
  have h1 : g (preBody s sys k) = g (setupK s k sys) := by
    unfold preBody; dsimp only; split <;> simp only [hemit]
  unfold startBody; dsimp only
  rw [foldl_emit_proj g hemit, hemit, hinfo, hobs, h1]

theorem arc_startBody (s : St) (sys : Nat) (k : Kind) : ArcStep (fun _ => 0) (fun _ => 0) s (startBody s sys k) := by
  refine (arc_setupK s k sys).right ⟨⟨?_, ?_, ?_, ?_, ?_, ?_⟩, ?_, ?_, ?_⟩
  · exact startBody_proj (fun t => t.tbl) (fun _ _ => rfl) (fun t w => by simp) (fun _ _ => rfl) s sys k
  · exact startBody_proj (fun t => t.tblDsp) (fun _ _ => rfl) (fun t w => by simp) (fun _ _ => rfl) s sys k
  · exact startBody_proj (fun t => t.entReactors) (fun _ _ => rfl) (fun t w => by simp) (fun _ _ => rfl) s sys k
  · exact startBody_proj (fun t => t.trkDsp) (fun _ _ => rfl) (fun t w => by simp) (fun _ _ => rfl) s sys k
  · exact startBody_proj (fun t => t.wq) (fun _ _ => rfl) (fun t w => by simp) (fun _ _ => rfl) s sys k
  · exact startBody_proj (fun t => t.stack) (fun _ _ => rfl) (fun t w => by simp) (fun _ _ => rfl) s sys k
  · exact startBody_proj (fun t => t.arcRc) (fun _ _ => rfl) (fun t w => by simp) (fun _ _ => rfl) s sys k
  · exact startBody_proj (fun t => t.nextArc) (fun _ _ => rfl) (fun t w => by simp) (fun _ _ => rfl) s sys k
  · exact startBody_proj (fun t => t.sigs) (fun _ _ => rfl) (fun t w => by simp) (fun _ _ => rfl) s sys k

end Cobweb

namespace Cobweb

macro "fld" : tactic => `(tactic| first | rfl | (simp [St.push, St.emit]; done))
macro "asame0" : tactic => `(tactic| exact ⟨by fld, by fld, by fld, by fld, by fld, by fld, by fld⟩)

/-- Popping the top frame hands its handles to whoever runs it. -/
theorem arc_pop {s0 : St} {f : Frame} {rest : List Frame} (hs : s0.stack = f :: rest) :
    ArcStep (fun a => frameH a f) (fun _ => 0) s0 ({ s0 with stack := rest } : St) :=
  step_of_same ⟨rfl, rfl, rfl, rfl, rfl, rfl, rfl⟩ (fun a => by simp [queueH, hs]; omega)

/-- Pushing frames spends the handles they hold. -/
theorem arc_push (s : St) (fs : List Frame) : ArcStep (fun _ => 0) (fun a => stackH a fs) s (s.push fs) :=
  step_of_same ⟨rfl, rfl, rfl, rfl, rfl, rfl, rfl⟩ (fun a => by simp [queueH, St.push]; omega)

/-- **Every frame keeps the reference counts above the number of handles held.** -/
theorem arc_runFrame (p : Prog) (hh : Hist) {s0 : St} {f : Frame} {rest : List Frame} (hs : s0.stack = f :: rest)
    (hf : s0.arcRc s0.nextArc = 0) : ArcStep (fun _ => 0) (fun _ => 0) s0 (runFrame p hh { s0 with stack := rest } f) := by
  -- frames that only rearrange the queues
  have quiet : ∀ s' : St, ArcSame s0 s' → (∀ a, queueH a s' ≤ queueH a s0) → ArcStep (fun _ => 0) (fun _ => 0) s0 s' :=
    fun s' h hq => step_of_same h (fun a => by have := hq a; omega)
  -- pop, then a step from the popped state that spends at most what the frame held
  have via : ∀ (s' : St) (c t : Nat → Nat), ArcStep c t ({ s0 with stack := rest } : St) s' → (∀ a, t a ≤ frameH a f + c a) →
      ArcStep (fun _ => 0) (fun _ => 0) s0 s' :=
    fun s' c t h ht => (ArcStep.trans (arc_pop hs) h (fun x hx => hx)).zero (fun a => by have := ht a; omega)
  cases f with
  | batch cs =>
    simp only [runFrame]
    cases cs with
    | nil => exact quiet _ (by asame0) (fun a => by simp [queueH, hs, doBatch])
    | cons c cs =>
      simp only [doBatch]
      have h1 := arc_push ({ s0 with stack := rest } : St) [.flush, .batch cs]
      have h2 := arc_applyCmd (({ s0 with stack := rest } : St).push [.flush, .batch cs]) c hf
      exact via _ _ _ (ArcStep.trans h1 h2 (fun x hx => hx)) (fun a => by simp [frameH]; omega)
  | flush =>
    simp only [runFrame, doFlush]
    split
    · exact quiet _ (by asame0) (fun a => by simp [queueH, hs, frameH])
    · exact quiet _ (by asame0) (fun a => by simp [queueH, hs, frameH, St.push])
  | bodyActs sys k i acc =>
    simp only [runFrame, doBodyActs]
    split
    · exact quiet _ (by asame0) (fun a => by simp [queueH, hs, frameH, St.push, St.emit])
    · rename_i a _
      refine quiet _ ?_ (fun x => ?_)
      · have := arcSame_enqueue ({ s0 with stack := rest } : St) a
        exact ⟨this.rc, this.tbl, this.dsp, this.ent, this.trk, this.next, this.sigs⟩
      · simp [queueH, hs, frameH, St.push, cmdsH_enqueue]
  | exclActs sys i =>
    simp only [runFrame, doExclActs]
    split
    · exact quiet _ (by asame0) (fun a => by simp [queueH, hs, frameH, St.push, St.emit])
    · exact quiet _ (by asame0) (fun a => by simp [queueH, hs, frameH, St.push])
    · rename_i a _ _
      refine quiet _ ?_ (fun x => ?_)
      · have := arcSame_enqueue ({ s0 with stack := rest } : St) a
        exact ⟨this.rc, this.tbl, this.dsp, this.ent, this.trk, this.next, this.sigs⟩
      · split <;> simp [queueH, hs, frameH, St.push, cmdsH_enqueue]
  | topActs t i =>
    simp only [runFrame, doTopActs]
    split
    · exact quiet _ (by asame0) (fun a => by simp [queueH, hs, frameH, St.push])
    · rename_i a _
      refine quiet _ ?_ (fun x => ?_)
      · have := arcSame_enqueue ({ s0 with stack := rest } : St) a
        exact ⟨this.rc, this.tbl, this.dsp, this.ent, this.trk, this.next, this.sigs⟩
      · simp [queueH, hs, frameH, St.push, cmdsH_enqueue]
  | cleanup k => exact via _ _ _ (arc_cleanupK _ k) (fun a => by simp)
  | onceTail sys =>
    simp only [runFrame, doOnceTail]
    have h1 := arc_despawn1 ({ s0 with stack := rest } : St) sys
    have h2 : ArcStep (fun _ => 0) (fun _ => 0) (despawn1 ({ s0 with stack := rest } : St) sys)
        (({ despawn1 ({ s0 with stack := rest } : St) sys with
            wq := (despawn1 ({ s0 with stack := rest } : St) sys).wq ++
              [Cmd.revoke sys ((((despawn1 ({ s0 with stack := rest } : St) sys).info sys).once).getD [])] } : St).push
          [.flush, .dropCallback sys]) :=
      step_of_same ⟨rfl, rfl, rfl, rfl, rfl, rfl, rfl⟩ (fun a => by simp [queueH, St.push, frameH, cmdH, Cmd.handles])
    exact via _ _ _ (ArcStep.trans h1 h2 (fun x hx => by simpa using hx)) (fun a => by simp)
  | dropCallback sys => exact quiet _ (by simp only [runFrame]; asame0) (fun a => by simp [runFrame, queueH, hs, frameH, St.emit])
  | runnerStart sys k =>
    exact quiet _ (by simp only [runFrame, doRunnerStart]; asame0) (fun a => by simp [runFrame, doRunnerStart, queueH, hs, frameH, St.push, St.emit])
  | runnerLookup sys k idx =>
    simp only [runFrame, doRunnerLookup]
    have habort : ∀ ev : Ev, ArcStep (fun _ => 0) (fun _ => 0) s0 ((({ s0 with stack := rest } : St).emit ev).push (abortFrames sys k)) :=
      fun ev => quiet _ (by asame0) (fun a => by simp [queueH, hs, frameH, St.push, St.emit, abortFrames])
    split
    · exact habort _
    · split
      · exact habort _
      · split
        · exact habort _
        · exact quiet _ (by asame0) (fun a => by simp [queueH, hs, frameH, St.emit])
      · have e1 : ArcEq ({ s0 with stack := rest } : St)
            ({ s0 with stack := rest, storage := upd s0.storage sys (some false), counter := s0.counter + 1 } : St) :=
          ⟨⟨rfl, rfl, rfl, rfl, rfl, rfl⟩, rfl, rfl, rfl⟩
        split
        · have h1 := arc_setupK ({ s0 with stack := rest, storage := upd s0.storage sys (some false), counter := s0.counter + 1 } : St) k sys
          have h2 := arc_push ((setupK ({ s0 with stack := rest, storage := upd s0.storage sys (some false), counter := s0.counter + 1 } : St) k sys).emit (.enter sys))
            [.afterBody sys idx]
          have h12 := ArcStep.trans (h1.right (s2 := (setupK _ k sys).emit (.enter sys)) ⟨⟨rfl, rfl, rfl, rfl, rfl, rfl⟩, rfl, rfl, rfl⟩) h2
            (fun x hx => by simpa [St.emit] using hx)
          exact via _ _ _ (ArcStep.left e1 h12) (fun a => by simp [frameH])
        · have h1 := arc_startBody ({ s0 with stack := rest, storage := upd s0.storage sys (some false), counter := s0.counter + 1 } : St) sys k
          have hsig : ∀ x, x ∈ (startBody ({ s0 with stack := rest, storage := upd s0.storage sys (some false), counter := s0.counter + 1 } : St) sys k).sigs →
              x ∈ ({ s0 with stack := rest, storage := upd s0.storage sys (some false), counter := s0.counter + 1 } : St).sigs := by
            intro x hx
            have e := startBody_proj (fun t => t.sigs) (fun _ _ => rfl) (fun t w => by simp) (fun _ _ => rfl)
              ({ s0 with stack := rest, storage := upd s0.storage sys (some false), counter := s0.counter + 1 } : St) sys k
            rw [e] at hx
            simpa using hx
          split
          · have h2 := arc_push (startBody ({ s0 with stack := rest, storage := upd s0.storage sys (some false), counter := s0.counter + 1 } : St) sys k)
              [.bodyActs sys k 0 [], .onceTail sys, .afterBody sys idx]
            exact via _ _ _ (ArcStep.left e1 (ArcStep.trans h1 h2 hsig)) (fun a => by simp [frameH])
          · split
            · have h2 : ArcStep (fun _ => 0) (fun _ => 0)
                  (startBody ({ s0 with stack := rest, storage := upd s0.storage sys (some false), counter := s0.counter + 1 } : St) sys k)
                  (({ startBody ({ s0 with stack := rest, storage := upd s0.storage sys (some false), counter := s0.counter + 1 } : St) sys k with
                      wq := (startBody ({ s0 with stack := rest, storage := upd s0.storage sys (some false), counter := s0.counter + 1 } : St) sys k).wq ++ [Cmd.cleanup k] } : St).push
                    [.exclActs sys 0, .afterBody sys idx]) :=
                step_of_same ⟨rfl, rfl, rfl, rfl, rfl, rfl, rfl⟩ (fun a => by simp [queueH, St.push, frameH, cmdH, Cmd.handles])
              exact via _ _ _ (ArcStep.left e1 (ArcStep.trans h1 h2 hsig)) (fun a => by simp)
            · have h2 := arc_push (startBody ({ s0 with stack := rest, storage := upd s0.storage sys (some false), counter := s0.counter + 1 } : St) sys k)
                [.bodyActs sys k 0 [], .afterBody sys idx]
              exact via _ _ _ (ArcStep.left e1 (ArcStep.trans h1 h2 hsig)) (fun a => by simp [frameH])
  | afterBody sys idx =>
    exact quiet _ (by simp only [runFrame, doAfterBody]; asame0) (fun a => by simp [runFrame, doAfterBody, queueH, hs, frameH, St.push, St.emit])
  | reinsert sys idx =>
    simp only [runFrame, doReinsert]
    split
    · exact quiet _ (by asame0) (fun a => by simp [queueH, hs, frameH, St.push, St.emit])
    · split <;> exact quiet _ (by refine ⟨?_, ?_, ?_, ?_, ?_, ?_, ?_⟩ <;> simp only [St.push, St.emit]) (fun a => by simp [queueH, hs, frameH, St.push, St.emit])
    · split <;> exact quiet _ (by refine ⟨?_, ?_, ?_, ?_, ?_, ?_, ?_⟩ <;> simp only [St.push, St.emit]) (fun a => by simp [queueH, hs, frameH, St.push, St.emit])
  | replayTake sys idx =>
    exact quiet _ (by simp only [runFrame, doReplayTake]; asame0) (fun a => by simp [runFrame, doReplayTake, queueH, hs, frameH, St.push])
  | replayLoop sys r kept idx =>
    simp only [runFrame, doReplayLoop]
    split
    · exact quiet _ (by asame0) (fun a => by simp [queueH, hs, frameH, St.push])
    · split
      · exact quiet _ (by asame0) (fun a => by simp [queueH, hs, frameH, St.push, St.emit])
      · exact quiet _ (by asame0) (fun a => by simp [queueH, hs, frameH, St.push])
  | finish sys idx =>
    simp only [runFrame, doFinish]
    split
    · split
      · exact quiet _ (by asame0) (fun a => by simp [queueH, hs, frameH, St.emit])
      · exact quiet _ (by asame0) (fun a => by simp [queueH, hs, frameH, St.push, St.emit, abortFrames])
    · exact quiet _ (by asame0) (fun a => by simp [queueH, hs, frameH, St.emit])
  | abort sys k =>
    simp only [runFrame]
    have h1 := arc_setupK ({ s0 with stack := rest } : St) k sys
    have h2 := arc_cleanupK (setupK ({ s0 with stack := rest } : St) k sys) k
    exact via _ _ _ (ArcStep.trans h1 h2 (fun x hx => by simpa using hx)) (fun a => by simp)
  | gc =>
    simp only [runFrame, doGc]
    split
    · exact quiet _ (by asame0) (fun a => by simp [queueH, hs, frameH])
    · exact quiet _ (by asame0) (fun a => by simp [queueH, hs, frameH, St.push])
  | despawnWork work =>
    simp only [runFrame, doDespawnWork]
    split
    · exact quiet _ (by asame0) (fun a => by simp [queueH, hs, frameH])
    · split
      · rename_i e ex work _
        split
        · have h1 := arc_despawn1 ({ s0 with stack := rest } : St) e
          have h2 := arc_push (despawn1 ({ s0 with stack := rest } : St) e) [.despawnWork work]
          exact via _ _ _ (ArcStep.trans h1 h2 (fun x hx => by simpa using hx)) (fun a => by simp [frameH])
        · exact quiet _ (by asame0) (fun a => by simp [queueH, hs, frameH, St.push])
      · split
        · exact quiet _ (by asame0) (fun a => by simp [queueH, hs, frameH, St.push])
        · exact quiet _ (by asame0) (fun a => by simp [queueH, hs, frameH, St.push])
  | poll =>
    simp only [runFrame, doPoll]
    have e1 := arcEq_pollRemovals ({ s0 with stack := rest } : St)
    have h2 := arc_pollDespawns (pollRemovals ({ s0 with stack := rest } : St)).1
    have h3 : ArcStep (fun _ => 0) (fun a => cmdsH a (pollDespawns (pollRemovals ({ s0 with stack := rest } : St)).1).2)
        (pollDespawns (pollRemovals ({ s0 with stack := rest } : St)).1).1
        (({ (pollDespawns (pollRemovals ({ s0 with stack := rest } : St)).1).1 with
            wq := (pollDespawns (pollRemovals ({ s0 with stack := rest } : St)).1).1.wq ++ (pollRemovals ({ s0 with stack := rest } : St)).2 ++
              (pollDespawns (pollRemovals ({ s0 with stack := rest } : St)).1).2 } : St).push [.flush]) :=
      step_of_same ⟨rfl, rfl, rfl, rfl, rfl, rfl, rfl⟩ (fun a => by simp [queueH, St.push, frameH, cmdsH_removalCmds] <;> omega)
    exact via _ _ _ (ArcStep.left e1 (ArcStep.trans h2 h3 (fun x hx => by simpa using hx))) (fun a => by simp)

end Cobweb

namespace Cobweb

/-- The user only drops signals it holds (`AutoDespawnSignal`s obtained from `prepare`). -/
def SigOK (h : Hist) : Prop := ∀ t s a, h.op t s = some (TopOp.sigDrop a) → a ∈ s.sigs

theorem arc_startTop {s : St} (hst : s.stack = []) (hf : s.arcRc s.nextArc = 0) (t : Nat) (op : TopOp)
    (hdrop : ∀ a, op = .sigDrop a → a ∈ s.sigs) : ArcStep (fun _ => 0) (fun _ => 0) s (startTop s t op) := by
  have quiet : ∀ s' : St, ArcSame s s' → (∀ a, queueH a s' ≤ queueH a s) → ArcStep (fun _ => 0) (fun _ => 0) s s' :=
    fun s' h hq => step_of_same h (fun a => by have := hq a; omega)
  have he : ArcEq s (s.emit (.top t)) := ⟨⟨rfl, rfl, rfl, rfl, rfl, rfl⟩, rfl, rfl, rfl⟩
  have happly : ∀ (s1 : St) (c : Cmd), ArcEq s s1 → (∀ a, cmdH a c = 0) → ArcStep (fun _ => 0) (fun _ => 0) s (applyCmd s1 c) := by
    intro s1 c e1 hc
    have hf1 : s1.arcRc s1.nextArc = 0 := by rw [e1.rc, e1.next]; exact hf
    exact (ArcStep.left e1 (arc_applyCmd s1 c hf1)).zero (fun a => by simp [hc a])
  unfold startTop
  cases op <;> dsimp only
  case acts => exact quiet _ (by asame0) (fun a => by simp [queueH, hst, St.push, St.emit, frameH])
  case wDespawn e => exact ArcStep.left he (arc_despawn1 _ e)
  case wDespawnRec e => exact quiet _ (by asame0) (fun a => by simp [queueH, hst, St.push, St.emit, frameH])
  case wRemove e ty => exact happly _ _ he (fun _ => rfl)
  case wInsertRaw e ty v => exact happly _ _ he (fun _ => rfl)
  case wSetParent c p => split <;> exact quiet _ (by asame0) (fun a => by simp [queueH, St.emit])
  case gc => exact quiet _ (by asame0) (fun a => by simp [queueH, hst, St.push, St.emit, frameH])
  case poll => exact quiet _ (by asame0) (fun a => by simp [queueH, hst, St.push, St.emit, frameH])
  case frameEnd => exact quiet _ (by asame0) (fun a => by simp [queueH, hst, St.push, St.emit, frameH])
  case clearTrackers => exact quiet _ (by asame0) (fun a => by simp [queueH, hst, St.emit])
  case wSysEvent sys ty pid =>
    exact happly _ _ ⟨⟨rfl, rfl, rfl, rfl, rfl, rfl⟩, rfl, rfl, rfl⟩ (fun _ => rfl)
  case wBroadcast ty pid => exact happly _ _ ⟨⟨rfl, rfl, rfl, rfl, rfl, rfl⟩, rfl, rfl, rfl⟩ (fun _ => rfl)
  case wEntityEvent e ty pid => exact happly _ _ ⟨⟨rfl, rfl, rfl, rfl, rfl, rfl⟩, rfl, rfl, rfl⟩ (fun _ => rfl)
  case sigPrepare e =>
    have hs : HoldSame s ({ (newArc (s.emit (.top t)) e).2 with sigs := (newArc (s.emit (.top t)) e).2.sigs ++ [(newArc (s.emit (.top t)) e).1] } : St) :=
      ⟨rfl, rfl, rfl, rfl, rfl, rfl⟩
    refine ⟨?_, by simp [newArc, St.emit], ?_, ?_, fun a ha => by simp [newArc, St.emit, ha]⟩
    · intro B N a _
      refine ⟨B, N, Nat.le_refl _, Nat.le_refl _, ?_⟩
      rw [holders_holdSame hs]
      simp only [newArc, St.emit, upd]
      by_cases ha : a = s.nextArc
      · subst ha; simp [hf]
      · simp [ha]
    · intro a ha h0
      have hne : a ≠ s.nextArc := by simp [newArc, St.emit] at ha; omega
      simp [newArc, St.emit, upd, hne, h0]
    · intro a ha
      simp only [newArc, St.emit, List.mem_append, List.mem_singleton] at ha
      rcases ha with h' | h'
      · exact Or.inl h'
      · exact Or.inr ⟨by omega, by simp [h', newArc, St.emit]⟩
  case sigClone a0 =>
    split
    · have hs : HoldSame s (cloneHandle (s.emit (.top t)) ⟨0, some a0⟩) := ⟨by simp [St.emit], by simp [St.emit], by simp [St.emit], by simp [St.emit], by simp [St.emit], by simp [St.emit]⟩
      rename_i hpos
      refine ⟨?_, by simp [St.emit], ?_, fun a ha => Or.inl (by simpa [St.emit] using ha), fun a ha => by simpa [St.emit] using ha⟩
      · intro B N a _
        refine ⟨B, N, Nat.le_refl _, Nat.le_refl _, ?_⟩
        rw [holders_holdSame hs, cloneHandle_arcRc]
        simp [St.emit]
      · intro a _ h0
        rw [cloneHandle_arcRc]
        have : a ≠ a0 := by
          intro h'; subst h'
          have : (s.emit (.top t)).arcRc a > 0 := hpos
          simp [St.emit] at this; omega
        simp [St.emit, h0, hOne, this.symm]
    · exact quiet _ (by asame0) (fun a => by simp [queueH, St.emit])
  case sigDrop a0 =>
    split
    · have hin : a0 ∈ s.sigs := hdrop a0 rfl
      have hs : HoldSame s (dropHandle (s.emit (.top t)) ⟨0, some a0⟩) := ⟨by simp [St.emit], by simp [St.emit], by simp [St.emit], by simp [St.emit], by simp [St.emit], by simp [St.emit]⟩
      refine ⟨?_, by simp [St.emit], ?_, fun a ha => Or.inl (by simpa [St.emit] using ha), fun a ha => by simpa [St.emit] using ha⟩
      · intro B N a ha
        refine ⟨B, N, Nat.le_refl _, Nat.le_refl _, ?_⟩
        have hne : a ≠ a0 := fun h' => ha (h' ▸ hin)
        rw [holders_holdSame hs, dropHandle_arcRc]
        simp [St.emit, hne.symm]
      · intro a _ h0
        rw [dropHandle_arcRc]
        simp only [St.emit, h0]
        split <;> rfl
    · exact quiet _ (by asame0) (fun a => by simp [queueH, St.emit])
  case sigThreads a n => exact quiet _ (by asame0) (fun a => by simp [queueH, hst, St.push, St.emit, frameH])

end Cobweb

namespace Cobweb

theorem arc_tick (p : Prog) (hh : Hist) (hsig : SigOK hh) {s s' : St} (h : ArcInv s) (ht : tick p hh s = some s') : ArcInv s' := by
  have hf : s.arcRc s.nextArc = 0 := (h.fresh 0 0 s.nextArc (Nat.le_refl _)).2
  unfold tick at ht
  split at ht
  · rename_i s'' hs
    simp only [Option.some.injEq] at ht; subst ht
    unfold step at hs
    cases hst : s.stack with
    | nil => rw [hst] at hs; cases hs
    | cons f rest =>
      rw [hst] at hs
      simp only [Option.some.injEq] at hs; subst hs
      exact arc_of_step h (arc_runFrame p hh hst hf) (fun _ => Nat.le_refl _)
  · rename_i hnone
    split at ht
    · rename_i op hop
      simp only [Option.some.injEq] at ht; subst ht
      have hst : s.stack = [] := by
        unfold step at hnone
        cases h' : s.stack with
        | nil => rfl
        | cons f rest => rw [h'] at hnone; cases hnone
      have h1 : ArcInv ({ s with topIdx := s.topIdx + 1 } : St) := ⟨h.le, h.fresh, h.sigsOld⟩
      exact arc_of_step h1 (arc_startTop (s := { s with topIdx := s.topIdx + 1 }) hst hf s.topIdx op
        (fun a ha => hsig s.topIdx s a (by rw [hop, ha]))) (fun _ => Nat.le_refl _)
    · cases ht

theorem sumTo_zero (n : Nat) (f : Nat → Nat) (h : ∀ k, f k = 0) : sumTo n f = 0 := by
  induction n with
  | zero => rfl
  | succ n ih => rw [sumTo_succ, ih, h n]

theorem holders_default (B N a : Nat) : holders B N a ({} : St) = 0 := by
  have e1 : sumTo B (tblAt a ({} : St)) = 0 := sumTo_zero _ _ (fun _ => rfl)
  have e2 : sumTo N (fun e => hcount a (({} : St).tblDsp e)) = 0 := sumTo_zero _ _ (fun _ => rfl)
  have e3 : sumTo N (fun e => hcount a (entHandles ({} : St) e)) = 0 := sumTo_zero _ _ (fun _ => rfl)
  simp only [holders, e1, e2, e3]; rfl

theorem arc_default : ArcInv ({} : St) :=
  ⟨fun B N a _ => by rw [holders_default]; exact Nat.zero_le _, fun B N a _ => ⟨holders_default B N a, rfl⟩, fun a ha => by cases ha⟩

/-- **Along every execution in which the user only drops signals it holds, the reference count of every framework arc is at
    least the number of handles the framework holds.** -/
theorem arc_reach (p : Prog) (hh : Hist) (hsig : SigOK hh) {s : St} (hr : Reach p hh ({} : St) s) : ArcInv s := by
  induction hr with
  | refl => exact arc_default
  | tick _ ht ih => exact arc_tick p hh hsig ih ht

/-! ### consequences: a stored handle keeps its arc alive -/

theorem holders_ge_tbl (a : Nat) (s : St) (t : Tbl) (ty : Nat) (N : Nat) : hcount a (s.tbl t ty) ≤ holders (ty + 1) N a s := by
  have h1 : hcount a (s.tbl t ty) ≤ tblAt a s ty := by cases t <;> simp only [tblAt] <;> omega
  have h2 := sumTo_ge_term (n := ty + 1) (tblAt a s) ty (Nat.lt_succ_self ty)
  simp only [holders]; omega

theorem holders_ge_dsp (a : Nat) (s : St) (e : Nat) (B : Nat) : hcount a (s.tblDsp e) ≤ holders B (e + 1) a s := by
  have h2 := sumTo_ge_term (n := e + 1) (fun x => hcount a (s.tblDsp x)) e (Nat.lt_succ_self e)
  simp only [holders]; omega

theorem holders_ge_ent (a : Nat) (s : St) (e : Nat) (B : Nat) : hcount a (entHandles s e) ≤ holders B (e + 1) a s := by
  have h2 := sumTo_ge_term (n := e + 1) (fun x => hcount a (entHandles s x)) e (Nat.lt_succ_self e)
  simp only [holders]; omega

theorem hcount_pos_of_mem {a : Nat} {l : List Handle} {h : Handle} (hm : h ∈ l) (ha : h.arc = some a) : 1 ≤ hcount a l := by
  unfold hcount
  exact List.countP_pos_iff.mpr ⟨h, hm, by simp [ha]⟩

end Cobweb
