/-
  Cobweb.Proofs.Dead — entities are never resurrected: in every execution an entity id that has been allocated and is dead
  stays dead (ids are only ever taken from `nextEnt`, which never decreases). "Gone" in C15 / C18 / C08 is therefore for good.
-/
import Cobweb.Proofs.Once
import Cobweb.Exec

namespace Cobweb

theorem Grow.refl (s : St) : Grow s s := ⟨Nat.le_refl _, fun _ hx => Or.inl hx⟩

theorem Grow.trans {a b c : St} (h1 : Grow a b) (h2 : Grow b c) : Grow a c := by
  refine ⟨Nat.le_trans h1.next h2.next, fun x hx => ?_⟩
  rcases h2.al x hx with h | h
  · exact h1.al x h
  · exact Or.inr (Nat.le_trans h1.next h)

theorem grow_step (p : Prog) (h : Hist) {s s' : St} (hs : step p h s = some s') : Grow s s' := by
  unfold step at hs
  split at hs
  · cases hs
  · rename_i f rest hst
    simp only [Option.some.injEq] at hs; subst hs
    have g := grow_runFrame p h { s with stack := rest } f
    exact ⟨g.next, g.al⟩

theorem grow_startTop (s : St) (t : Nat) (op : TopOp) : Grow s (startTop s t op) :=
  (benignP_startTop s t op).choose_spec.2.2.grow

theorem grow_tick (p : Prog) (h : Hist) {s s' : St} (ht : tick p h s = some s') : Grow s s' := by
  unfold tick at ht
  split at ht
  · rename_i s'' hs
    simp only [Option.some.injEq] at ht; subst ht
    exact grow_step p h hs
  · split at ht
    · rename_i op _
      simp only [Option.some.injEq] at ht; subst ht
      have g := grow_startTop ({ s with topIdx := s.topIdx + 1 } : St) s.topIdx op
      exact ⟨g.next, g.al⟩
    · cases ht

theorem grow_reach {p : Prog} {h : Hist} {s s' : St} (hr : Reach p h s s') : Grow s s' := by
  induction hr with
  | refl => exact Grow.refl s
  | tick _ ht ih => exact ih.trans (grow_tick p h ht)

/-- **No resurrection**: an allocated entity id that is dead stays dead, in every execution. -/
theorem dead_stays_dead {p : Prog} {h : Hist} {s s' : St} (hr : Reach p h s s') (x : Nat) (hx : x < s.nextEnt)
    (hd : s.alive x = false) : s'.alive x = false := by
  cases hal : s'.alive x with
  | false => rfl
  | true =>
    rcases (grow_reach hr).al x hal with h1 | h1
    · rw [hd] at h1; cases h1
    · omega

/-- ... and ids are handed out in increasing order, never reused. -/
theorem nextEnt_mono {p : Prog} {h : Hist} {s s' : St} (hr : Reach p h s s') : s.nextEnt ≤ s'.nextEnt := (grow_reach hr).next

end Cobweb
