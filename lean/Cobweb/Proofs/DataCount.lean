/-
  Cobweb.Proofs.DataCount — the `DataEntityCounter` of a broadcast / entity-event data entity equals, along every
  execution, the number of readers that are still to come: reaction commands not yet applied, prepared entries of the
  event tracker, and the run that is reading right now. (C05: the payload is released exactly after its last reader.)
-/
import Cobweb.Proofs.FlagsExact
import Cobweb.Proofs.Counts

namespace Cobweb

/-! ### who still reads a data entity -/

def cmdReads (d : Nat) : Cmd → Nat
  | .reactBc d' _ => if d' = d then 1 else 0
  | .reactEv _ d' _ => if d' = d then 1 else 0
  | _ => 0

def listReads (d : Nat) (cs : List Cmd) : Nat := (cs.map (cmdReads d)).sum

def frameReads (d : Nat) : Frame → Nat
  | .batch cs => listReads d cs
  | _ => 0

def stackReads (d : Nat) (st : List Frame) : Nat := sumF (frameReads d) st

def prepReads (d : Nat) (s : St) : Nat := s.trkEvt.prepared.countP (fun p => p.2 == d)

def curReads (d : Nat) (s : St) : Nat := if s.trkEvt.reacting = true ∧ s.trkEvt.cur = d then 1 else 0

/-- Readers of data entity `d` that have not finished. -/
def readers (d : Nat) (s : St) : Nat := prepReads d s + stackReads d s.stack + curReads d s

@[simp] theorem listReads_nil (d : Nat) : listReads d [] = 0 := rfl
@[simp] theorem listReads_cons (d : Nat) (c : Cmd) (cs : List Cmd) : listReads d (c :: cs) = cmdReads d c + listReads d cs := by
  simp [listReads]
@[simp] theorem listReads_append (d : Nat) (a b : List Cmd) : listReads d (a ++ b) = listReads d a + listReads d b := by
  simp [listReads]

/-! ### the data a not-yet-applied `spawn` command will create -/

def frameSpawn (d : Nat) : Frame → Option DataEnt
  | .batch (.spawnData d' x :: _) => if d' = d ∧ x.kind ≠ .sys then some x else none
  | _ => none

/-! ### commands that cannot touch the count -/

/-- Everything except reaction commands of events and the spawn of non-system event data. -/
def plainCmd : Cmd → Bool
  | .reactBc _ _ => false
  | .reactEv _ _ _ => false
  | .spawnData _ x => x.kind == .sys
  | _ => true

/-- Everything except the spawn of non-system event data. -/
def semiPlain : Cmd → Bool
  | .spawnData _ x => x.kind == .sys
  | _ => true

def plainList (cs : List Cmd) : Prop := ∀ c ∈ cs, plainCmd c = true

def Frame.dataOK : Frame → Prop
  | .batch cs => ∀ c ∈ cs.tail, semiPlain c = true
  | .bodyActs _ _ _ acc => plainList acc
  | _ => True

theorem plain_semi {c : Cmd} (h : plainCmd c = true) : semiPlain c = true := by
  cases c <;> simp_all [plainCmd, semiPlain]

theorem plain_reads {c : Cmd} (h : plainCmd c = true) (d : Nat) : cmdReads d c = 0 := by
  cases c <;> simp_all [plainCmd, cmdReads]

theorem plainList_reads {cs : List Cmd} (h : plainList cs) (d : Nat) : listReads d cs = 0 := by
  induction cs with
  | nil => rfl
  | cons c cs ih =>
    rw [listReads_cons, plain_reads (h c (by simp)) d, ih (fun x hx => h x (by simp [hx]))]

theorem plainList_nil : plainList [] := by intro c hc; cases hc
theorem plainList_append {a b : List Cmd} (ha : plainList a) (hb : plainList b) : plainList (a ++ b) := by
  intro c hc; rcases List.mem_append.mp hc with h | h
  · exact ha c h
  · exact hb c h
theorem plainList_map {α : Type} (l : List α) (f : α → Cmd) (h : ∀ x, plainCmd (f x) = true) : plainList (l.map f) := by
  intro c hc; obtain ⟨x, _, rfl⟩ := List.mem_map.mp hc; exact h x
theorem plainList_cons {c : Cmd} {cs : List Cmd} (h1 : plainCmd c = true) (h2 : plainList cs) : plainList (c :: cs) := by
  intro x hx; rcases List.mem_cons.mp hx with rfl | h
  · exact h1
  · exact h2 x h

/-- A frame that holds no reader and no pending spawn. -/
def Frame.noData (f : Frame) : Prop := ∀ d, frameReads d f = 0 ∧ frameSpawn d f = none

theorem noData_of_notBatch {f : Frame} (h : ∀ cs, f ≠ .batch cs) : f.noData := by
  intro d; cases f <;> first | exact ⟨rfl, rfl⟩ | exact absurd rfl (h _)

theorem noData_batch_plain {cs : List Cmd} (h : plainList cs) : (Frame.batch cs).noData := by
  intro d
  refine ⟨plainList_reads h d, ?_⟩
  cases cs with
  | nil => rfl
  | cons c cs =>
    have hc := h c (by simp)
    cases c <;> try rfl
    rename_i d' x
    simp only [plainCmd, beq_iff_eq] at hc
    simp [frameSpawn, hc]

theorem stackReads_append_noData (d : Nat) (fs rest : List Frame) (h : ∀ g ∈ fs, g.noData) :
    stackReads d (fs ++ rest) = stackReads d rest := by
  unfold stackReads
  rw [sumF_append]
  have : sumF (frameReads d) fs = 0 := by
    induction fs with
    | nil => rfl
    | cons g fs ih => rw [sumF_cons, (h g (by simp) d).1, ih (fun x hx => h x (by simp [hx]))]
  omega

end Cobweb

namespace Cobweb

/-! ### state changes that cannot touch a count -/

def DeadOK (s : St) : Prop := ∀ d, s.alive d = false → s.data d = none

/-- `s'` differs from `s` in ways that neither create nor modify event data of broadcasts / entity events, nor touch the
    event tracker: entities may die (their data goes with them), fresh ids may be reserved, system-event data may change. -/
structure DQ (s s' : St) : Prop where
  next : s.nextEnt ≤ s'.nextEnt
  old : ∀ d x, s'.data d = some x → x.kind ≠ .sys → s.data d = some x
  gone : ∀ d, s'.data d = none → s.data d = none ∨ s'.alive d = false
  al : ∀ d, s'.alive d = true → s.alive d = true ∨ s.nextEnt ≤ d
  dead : DeadOK s → DeadOK s'

theorem DQ.refl (s : St) : DQ s s :=
  ⟨Nat.le_refl _, fun _ _ h _ => h, fun _ h => Or.inl h, fun _ h => Or.inl h, id⟩

/-- Same data-relevant fields. -/
def SameD (s s' : St) : Prop := s'.nextEnt = s.nextEnt ∧ s'.data = s.data ∧ s'.alive = s.alive

theorem DQ.of_same {s s' : St} (h : SameD s s') : DQ s s' := by
  obtain ⟨h1, h2, h3⟩ := h
  refine ⟨by rw [h1]; exact Nat.le_refl _, fun d x hx _ => by rw [← h2]; exact hx, fun d hd => Or.inl (by rw [← h2]; exact hd),
    fun d hd => Or.inl (by rw [← h3]; exact hd), fun hd d ha => by rw [h2]; exact hd d (by rw [← h3]; exact ha)⟩

theorem DQ.left {s s1 s' : St} (h : SameD s s1) (q : DQ s1 s') : DQ s s' := by
  obtain ⟨h1, h2, h3⟩ := h
  refine ⟨by rw [← h1]; exact q.next, fun d x hx hk => by rw [← h2]; exact q.old d x hx hk, fun d hd => ?_, fun d hd => ?_,
    fun hd => q.dead (fun d ha => by rw [h2]; exact hd d (by rw [← h3]; exact ha))⟩
  · rcases q.gone d hd with h | h
    · exact Or.inl (by rw [← h2]; exact h)
    · exact Or.inr h
  · rcases q.al d hd with h | h
    · exact Or.inl (by rw [← h3]; exact h)
    · exact Or.inr (by rw [← h1]; exact h)

theorem DQ.right {s s1 s' : St} (q : DQ s s1) (h : SameD s1 s') : DQ s s' := by
  obtain ⟨h1, h2, h3⟩ := h
  refine ⟨by rw [h1]; exact q.next, fun d x hx hk => q.old d x (by rw [← h2]; exact hx) hk, fun d hd => ?_,
    fun d hd => q.al d (by rw [← h3]; exact hd), fun hd d ha => by rw [h2]; exact q.dead hd d (by rw [← h3]; exact ha)⟩
  rcases q.gone d (by rw [← h2]; exact hd) with h | h
  · exact Or.inl h
  · exact Or.inr (by rw [h3]; exact h)

theorem DQ.kill (s : St) (e : Nat) : DQ s (kill s e) := by
  refine ⟨by simp, ?_, ?_, ?_, ?_⟩
  · intro d x hx _
    rw [kill_data] at hx
    split at hx
    · cases hx
    · exact hx
  · intro d hd
    rw [kill_data] at hd
    by_cases h : d = e
    · subst h; exact Or.inr (kill_alive_self s d)
    · simp [h] at hd; exact Or.inl hd
  · intro d hd
    by_cases h : d = e
    · subst h; rw [kill_alive_self] at hd; cases hd
    · rw [kill_alive_other s e d h] at hd; exact Or.inl hd
  · intro hdead d ha
    rw [kill_data]
    by_cases h : d = e
    · simp [h]
    · simp only [h, ↓reduceIte]
      rw [kill_alive_other s e d h] at ha
      exact hdead d ha

theorem DQ.despawn1 (s : St) (e : Nat) : DQ s (despawn1 s e) := by
  unfold Cobweb.despawn1; split
  · exact DQ.kill s e
  · exact DQ.refl s

theorem DQ.fresh (s : St) (hd : DeadOK s) (hf : s.alive s.nextEnt = false) : DQ s s.fresh.2 := by
  refine ⟨by simp [St.fresh], fun d x hx _ => hx, fun d h => Or.inl h, ?_, ?_⟩
  · intro d h
    simp only [St.fresh, upd] at h
    split at h
    · rename_i hde; exact Or.inr (by omega)
    · exact Or.inl h
  · intro _ d ha
    simp only [St.fresh, upd] at ha
    split at ha
    · cases ha
    · exact hd d ha

end Cobweb

namespace Cobweb

theorem dq_enqueue (s : St) (a : Act) (hd : DeadOK s) (hf : ∀ e, s.nextEnt ≤ e → s.alive e = false) : DQ s (enqueue s a).1 := by
  cases a <;> simp only [enqueue] <;> (repeat' split) <;>
    first
    | exact DQ.refl _
    | exact DQ.of_same ⟨rfl, rfl, rfl⟩
    | exact DQ.right (DQ.fresh s hd (hf _ (Nat.le_refl _))) ⟨rfl, rfl, rfl⟩
    | exact DQ.left (s1 := s.emit _) ⟨rfl, rfl, rfl⟩
        (DQ.right (DQ.fresh (s.emit _) hd (hf _ (Nat.le_refl _))) ⟨rfl, rfl, rfl⟩)

theorem plain_enqueue (s : St) (a : Act) : plainList (enqueue s a).2 := by
  cases a <;> simp only [enqueue] <;> (repeat' split) <;>
    first
    | exact plainList_nil
    | exact plainList_cons rfl (plainList_map _ _ (fun _ => rfl))
    | (intro c hc; simp at hc; first | (subst hc; rfl) | (rcases hc with rfl | rfl <;> rfl))

end Cobweb

namespace Cobweb

theorem regCmds_plain (s : St) (h : Handle) (t : Trig) : plainList (regCmds s h t).2 := by
  unfold regCmds
  split
  · split
    · intro c hc; simp at hc; subst hc; rfl
    · exact plainList_nil
  · intro c hc; simp at hc; rcases hc with rfl | rfl <;> rfl
  · split
    · intro c hc; simp at hc; subst hc; rfl
    · split
      · intro c hc; simp at hc; subst hc; rfl
      · exact plainList_nil

theorem regAll_plain (s : St) (h : Handle) (ts : List Trig) : plainList (regAll s h ts).2 := by
  induction ts generalizing s with
  | nil => exact plainList_nil
  | cons t ts ih =>
    unfold regAll; dsimp only
    exact plainList_append (regCmds_plain s h t) (ih _)

/-- Frames that hold neither readers nor spawns and satisfy the frame condition. -/
def FramesQuiet (fs : List Frame) : Prop := ∀ g ∈ fs, g.noData ∧ g.dataOK

theorem framesQuiet_nil : FramesQuiet [] := by intro g hg; cases hg

theorem dataOK_batch_plain {cs : List Cmd} (h : plainList cs) : (Frame.batch cs).dataOK := by
  intro c hc
  exact plain_semi (h c (List.mem_of_mem_tail hc))

theorem framesQuiet_flush_batch {cs : List Cmd} (h : plainList cs) : FramesQuiet [Frame.flush, Frame.batch cs] := by
  intro g hg; simp at hg; rcases hg with rfl | rfl
  · exact ⟨noData_of_notBatch (by intro cs h; cases h), trivial⟩
  · exact ⟨noData_batch_plain h, dataOK_batch_plain h⟩

theorem framesQuiet_one {g : Frame} (h : ∀ cs, g ≠ .batch cs) (hok : g.dataOK) : FramesQuiet [g] := by
  intro x hx; simp at hx; subst hx; exact ⟨noData_of_notBatch h, hok⟩

theorem framesQuiet_append {a b : List Frame} (ha : FramesQuiet a) (hb : FramesQuiet b) : FramesQuiet (a ++ b) := by
  intro g hg; rcases List.mem_append.mp hg with h | h
  · exact ha g h
  · exact hb g h

def isEvtCmd : Cmd → Bool
  | .broadcast _ _ => true
  | .entityEvent _ _ _ => true
  | _ => false

macro "sameD" : tactic => `(tactic| exact ⟨by simp [St.push, St.emit, setTbl], by simp [St.push, St.emit, setTbl], by simp [St.push, St.emit, setTbl]⟩)

/-- A command that is neither a reaction command of an event, nor a cleanup, nor an event trigger: no count changes. -/
theorem dq_applyCmd (s : St) (c : Cmd) (hp : plainCmd c = true) (hc : isCleanup c = false) (he : isEvtCmd c = false)
    (hd : DeadOK s) :
    DQ s (applyCmd s c) ∧ (applyCmd s c).wq = s.wq ∧ ∃ fs, (applyCmd s c).stack = fs ++ s.stack ∧ FramesQuiet fs := by
  refine ⟨?_, applyCmd_wq s c, ?_⟩
  · cases c <;> simp only [isCleanup, isEvtCmd, plainCmd] at hc he hp <;> (try (exact absurd hc (by decide))) <;>
      (try (exact absurd he (by decide))) <;> (try (exact absurd hp (by decide))) <;> simp only [applyCmd]
    case marker m => exact DQ.of_same (by sameD)
    case run sys => exact DQ.of_same (by sameD)
    case sysEvent sys d => exact DQ.of_same (by sameD)
    case reactRes sys => exact DQ.of_same (by sameD)
    case reactEnt src rt sys => exact DQ.of_same (by sameD)
    case reactDsp src sys h => exact DQ.of_same (by sameD)
    case spawnStorage sys => split <;> exact DQ.of_same (by sameD)
    case insertOnce sys => split <;> exact DQ.of_same (by sameD)
    case spawnData d x =>
      have hk : x.kind = .sys := by simpa using hp
      split
      · rename_i hal
        refine ⟨Nat.le_refl _, ?_, ?_, fun _ h => Or.inl h, ?_⟩
        · intro d' y hy hky
          simp only [upd] at hy
          split at hy
          · injection hy with hy; subst hy; exact absurd hk hky
          · exact hy
        · intro d' hd'
          simp only [upd] at hd'
          split at hd'
          · cases hd'
          · exact Or.inl hd'
        · intro _ d' ha
          simp only [upd]
          split
          · rename_i hdd; subst hdd; rw [hal] at ha; cases ha
          · exact hd d' ha
      · exact DQ.of_same (by sameD)
    case resMut ty => exact DQ.of_same (by sameD)
    case tryInsert e ty v => split <;> exact DQ.of_same (by sameD)
    case insReact e ty => split <;> exact DQ.of_same (by sameD)
    case mutReact e ty => exact DQ.of_same (by sameD)
    case register trigs sys mode => cases mode <;> exact DQ.of_same (by sameD)
    case regType t ty h => exact DQ.of_same (by split <;> sameD)
    case regEnt rt e h => split <;> (try split) <;> exact DQ.of_same (by sameD)
    case regDsp e h => split <;> exact DQ.of_same (by sameD)
    case trackRemovals ty => split <;> exact DQ.of_same (by sameD)
    case revoke sys trigs => exact DQ.of_same (by sameD)
    case despawn e => exact DQ.despawn1 s e
    case despawnRec e => exact DQ.of_same (by sameD)
    case removeComp e ty => split <;> exact DQ.of_same (by sameD)
    case ewrInsertLocal e wr v => split <;> exact DQ.of_same (by sameD)
    case ewrCleanupData sys e wr => split <;> (try split) <;> exact DQ.of_same (by sameD)
    case ewrAdd e wr v sys => split <;> exact DQ.of_same (by sameD)
  · have nb : ∀ (g : Frame), (∀ cs, g ≠ .batch cs) → g.dataOK → FramesQuiet [g] := fun g h1 h2 => framesQuiet_one h1 h2
    cases c <;> simp only [isCleanup, isEvtCmd, plainCmd] at hc he hp <;> (try (exact absurd hc (by decide))) <;>
      (try (exact absurd he (by decide))) <;> (try (exact absurd hp (by decide))) <;> simp only [applyCmd]
    case marker m => exact ⟨[], rfl, framesQuiet_nil⟩
    case run sys => exact ⟨_, rfl, nb _ (by intro cs h; cases h) trivial⟩
    case sysEvent sys d => exact ⟨_, rfl, nb _ (by intro cs h; cases h) trivial⟩
    case reactRes sys => exact ⟨_, rfl, nb _ (by intro cs h; cases h) trivial⟩
    case reactEnt src rt sys => exact ⟨_, rfl, nb _ (by intro cs h; cases h) trivial⟩
    case reactDsp src sys h => exact ⟨_, rfl, nb _ (by intro cs h; cases h) trivial⟩
    case spawnStorage sys => split <;> exact ⟨[], rfl, framesQuiet_nil⟩
    case insertOnce sys => split <;> exact ⟨[], rfl, framesQuiet_nil⟩
    case spawnData d x => split <;> exact ⟨[], rfl, framesQuiet_nil⟩
    case resMut ty => exact ⟨_, rfl, framesQuiet_flush_batch (plainList_map _ _ (fun _ => rfl))⟩
    case tryInsert e ty v => split <;> exact ⟨[], rfl, framesQuiet_nil⟩
    case insReact e ty =>
      split
      · exact ⟨[], rfl, framesQuiet_nil⟩
      · exact ⟨_, rfl, framesQuiet_flush_batch (plainList_append (plainList_map _ _ (fun _ => rfl)) (plainList_map _ _ (fun _ => rfl)))⟩
    case mutReact e ty =>
      exact ⟨_, rfl, framesQuiet_flush_batch (plainList_append (plainList_map _ _ (fun _ => rfl)) (plainList_map _ _ (fun _ => rfl)))⟩
    case register trigs sys mode =>
      cases mode <;> dsimp only
      · refine ⟨[.flush, .batch (regAll s ⟨sys, none⟩ trigs).2], ?_, framesQuiet_flush_batch (regAll_plain _ _ _)⟩
        simp [St.push]
      · refine ⟨[.flush, .batch (regAll (newArc s sys).2 ⟨sys, some (newArc s sys).1⟩ trigs).2], ?_, framesQuiet_flush_batch (regAll_plain _ _ _)⟩
        simp [St.push]
      · refine ⟨[.flush, .batch (regAll (newArc s sys).2 ⟨sys, some (newArc s sys).1⟩ trigs).2], ?_, framesQuiet_flush_batch (regAll_plain _ _ _)⟩
        simp [St.push]
    case regType t ty h => exact ⟨[], by split <;> rfl, framesQuiet_nil⟩
    case regEnt rt e h => exact ⟨[], by split <;> (try split) <;> simp, framesQuiet_nil⟩
    case regDsp e h => exact ⟨[], by split <;> simp, framesQuiet_nil⟩
    case trackRemovals ty => exact ⟨[], by split <;> rfl, framesQuiet_nil⟩
    case revoke sys trigs => exact ⟨[], by simp, framesQuiet_nil⟩
    case despawn e => exact ⟨[], by simp, framesQuiet_nil⟩
    case despawnRec e => exact ⟨_, rfl, nb _ (by intro cs h; cases h) trivial⟩
    case removeComp e ty => exact ⟨[], by split <;> rfl, framesQuiet_nil⟩
    case ewrInsertLocal e wr v => exact ⟨[], by split <;> rfl, framesQuiet_nil⟩
    case ewrCleanupData sys e wr => exact ⟨[], by split <;> (try split) <;> rfl, framesQuiet_nil⟩
    case ewrAdd e wr v sys =>
      split
      · exact ⟨_, rfl, framesQuiet_flush_batch (plainList_cons rfl (plainList_cons rfl plainList_nil))⟩
      · exact ⟨[], rfl, framesQuiet_nil⟩

end Cobweb

namespace Cobweb

/-! ### the invariant -/

/-- The only places a not-yet-applied spawn of broadcast / entity-event data can be: the head of the top batch, or the head
    of the batch right below a top `flush` that has nothing to flush. -/
def SpawnPos (s : St) (pre : List Frame) : Prop := pre = [] ∨ (pre = [Frame.flush] ∧ s.wq = [])

structure DataInv (s : St) : Prop where
  /-- the counter of live broadcast / entity-event data = number of unfinished readers, and it is positive -/
  live : ∀ d x, s.alive d = true → s.data d = some x → x.kind ≠ .sys → x.cnt = readers d s ∧ 1 ≤ x.cnt
  /-- a pending spawn sits at the top, its entity is reserved and empty, its counter = the reaction commands behind it -/
  window : ∀ pre g post d x, s.stack = pre ++ g :: post → frameSpawn d g = some x →
    SpawnPos s pre ∧ s.data d = none ∧ s.alive d = true ∧ x.cnt = frameReads d g ∧ 1 ≤ x.cnt ∧ prepReads d s = 0 ∧
    curReads d s = 0 ∧ stackReads d post = 0
  fresh : ∀ d, s.nextEnt ≤ d → readers d s = 0 ∧ ∀ g ∈ s.stack, frameSpawn d g = none
  dead : DeadOK s
  wq : plainList s.wq
  frames : ∀ f ∈ s.stack, f.dataOK

theorem readers_eq {s s' : St} (d : Nat) (he : s'.trkEvt = s.trkEvt) (hst : stackReads d s'.stack = stackReads d s.stack) :
    readers d s' = readers d s := by
  simp [readers, prepReads, curReads, he, hst]

theorem stackReads_cons (d : Nat) (f : Frame) (l : List Frame) : stackReads d (f :: l) = frameReads d f + stackReads d l := by
  simp [stackReads]

/-- No frame below a top frame other than `flush` holds a pending spawn. -/
theorem no_spawn_below {s0 : St} {f : Frame} {rest : List Frame} (h : DataInv s0) (hs : s0.stack = f :: rest)
    (hfl : f ≠ .flush) : ∀ g ∈ rest, ∀ d, frameSpawn d g = none := by
  intro g hg d
  cases hsp : frameSpawn d g with
  | none => rfl
  | some x =>
    exfalso
    obtain ⟨a, b, hab⟩ := List.append_of_mem hg
    have := (h.window (f :: a) g b d x (by rw [hs, hab]; simp) hsp).1
    rcases this with h1 | ⟨h1, _⟩
    · cases h1
    · simp only [List.cons.injEq] at h1; exact hfl h1.1

/-- **Count-preserving step.** Nothing creates or modifies event data, the readers of every data entity are the same
    (possibly moved between a batch, the tracker's prepared list and the current run), and no spawn is pending afterwards. -/
theorem data_same {s0 s' : St} (hfreshdead : ∀ e, s0.nextEnt ≤ e → s0.alive e = false) (h : DataInv s0) (q : DQ s0 s')
    (hrd : ∀ d, readers d s' = readers d s0)
    (hnospawn : ∀ g ∈ s'.stack, ∀ d, frameSpawn d g = none) (hframes : ∀ g ∈ s'.stack, g.dataOK) (hwq : plainList s'.wq) :
    DataInv s' := by
  constructor
  · intro d x hal hd' hk
    have hd0 : s0.data d = some x := q.old d x hd' hk
    have hal0 : s0.alive d = true := by
      rcases q.al d hal with h1 | h1
      · exact h1
      · have := h.dead d (hfreshdead d h1); rw [hd0] at this; cases this
    rw [hrd d]
    exact h.live d x hal0 hd0 hk
  · intro pre g post d x hsplit hsp
    have hg : g ∈ s'.stack := by rw [hsplit]; simp
    rw [hnospawn g hg d] at hsp; cases hsp
  · intro d hd
    have hd0 : s0.nextEnt ≤ d := Nat.le_trans q.next hd
    rw [hrd d]
    exact ⟨(h.fresh d hd0).1, fun g hg => hnospawn g hg d⟩
  · exact q.dead h.dead
  · exact hwq
  · exact hframes

/-- **Quiet step.** The popped frame (not a `flush`) and the pushed frames hold no readers or spawns, the event tracker
    is untouched, the state change is `DQ`. -/
theorem data_quiet {s0 s' : St} {f : Frame} {rest fs : List Frame} (c : ∀ e, s0.nextEnt ≤ e → s0.alive e = false)
    (h : DataInv s0) (hs : s0.stack = f :: rest)
    (q : DQ ({ s0 with stack := rest } : St) s') (he : s'.trkEvt = s0.trkEvt) (hf : f.noData) (hfl : f ≠ .flush)
    (hst : s'.stack = fs ++ rest) (hfs : FramesQuiet fs) (hwq : plainList s'.wq) : DataInv s' := by
  have hnb := no_spawn_below h hs hfl
  refine data_same c h (DQ.left (s1 := ({ s0 with stack := rest } : St)) ⟨rfl, rfl, rfl⟩ q) ?_ ?_ ?_ hwq
  · intro d
    have h1 : stackReads d s'.stack = stackReads d s0.stack := by
      rw [hst, stackReads_append_noData d fs rest (fun g hg => (hfs g hg).1), hs, stackReads_cons, (hf d).1]; omega
    exact readers_eq d he h1
  · intro g hg d
    rw [hst] at hg
    rcases List.mem_append.mp hg with h1 | h1
    · exact ((hfs g h1).1 d).2
    · exact hnb g h1 d
  · intro g hg
    rw [hst] at hg
    rcases List.mem_append.mp hg with h1 | h1
    · exact (hfs g h1).2
    · exact h.frames g (by rw [hs]; simp [h1])

end Cobweb

namespace Cobweb

/-! ### `setup`: a prepared entry becomes the current run -/

theorem TrkData.start_reads (t : TrkData) (sys d0 d : Nat) (hidle : t.reacting = false) :
    (t.start sys d0).prepared.countP (fun p => p.2 == d) +
      (if (t.start sys d0).reacting = true ∧ (t.start sys d0).cur = d then 1 else 0) = t.prepared.countP (fun p => p.2 == d) := by
  by_cases hm : (sys, d0) ∈ t.prepared
  · obtain ⟨h1, h2, h3⟩ := TrkData.start_claims_own t sys d0 hm
    rw [h1, h2, h3]
    have := (List.perm_cons_erase hm).countP_eq (fun p => p.2 == d)
    rw [this, List.countP_cons]
    by_cases hb : d0 = d
    · subst hb; simp
    · have : (d0 == d) = false := by simp [hb]
      simp [this, hb]
  · rw [TrkData.start_none t sys d0 hm]; simp [hidle]

theorem setupK_trkEvt_other (s : St) (k : Kind) (sys : Nat) (h : usesEvt k = false) : (setupK s k sys).trkEvt = s.trkEvt := by
  cases k <;> simp [usesEvt] at h <;> simp only [setupK] <;> (try split) <;> simp

theorem setupK_reads (s : St) (k : Kind) (sys d : Nat) (hidle : s.trkEvt.reacting = false) :
    prepReads d (setupK s k sys) + curReads d (setupK s k sys) = prepReads d s + curReads d s := by
  cases hu : usesEvt k with
  | false => simp only [prepReads, curReads, setupK_trkEvt_other s k sys hu]
  | true =>
    have h0 : curReads d s = 0 := by simp [curReads, hidle]
    rw [h0]
    cases k <;> simp [usesEvt] at hu <;> simp only [setupK, prepReads, curReads]
    · exact TrkData.start_reads s.trkEvt sys _ d hidle
    · exact TrkData.start_reads s.trkEvt sys _ d hidle

theorem setupK_readers (s : St) (k : Kind) (sys d : Nat) (hidle : s.trkEvt.reacting = false) :
    readers d (setupK s k sys) = readers d s := by
  have := setupK_reads s k sys d hidle
  simp only [readers, setupK_stack]
  omega

theorem setupK_sameD (s : St) (k : Kind) (sys : Nat) : SameD s (setupK s k sys) := ⟨by simp, by simp, by simp⟩

end Cobweb

namespace Cobweb

/-! ### `cleanup`: the current reader is done -/

theorem cleanupK_other (s : St) (k : Kind) (h : usesEvt k = false) :
    DQ s (cleanupK s k) ∧ (cleanupK s k).trkEvt = s.trkEvt := by
  cases k <;> simp [usesEvt] at h <;> simp only [cleanupK]
  · exact ⟨DQ.refl s, trivial⟩
  · exact ⟨DQ.left (s1 := { s with trkSys := { s.trkSys with reacting := false } }) ⟨rfl, rfl, rfl⟩ (DQ.despawn1 _ _), by simp⟩
  · exact ⟨DQ.of_same ⟨rfl, rfl, rfl⟩, trivial⟩
  · constructor
    · split <;> exact DQ.of_same ⟨by simp, by simp, by simp⟩
    · split <;> simp

/-- The part of `readers` that lives in the event tracker. -/
def trkReads (d : Nat) (s : St) : Nat := prepReads d s + curReads d s

theorem readers_split (d : Nat) (s : St) : readers d s = trkReads d s + stackReads d s.stack := by
  simp only [readers, trkReads]; omega

/-- `try_cleanup_data_entity` on a state whose live counters are exact except that `d'` counts one reader too many. -/
theorem tryCleanupData_live (s : St) (d' : Nat)
    (hlive : ∀ d x, s.alive d = true → s.data d = some x → x.kind ≠ .sys →
      x.cnt = readers d s + (if d = d' then 1 else 0) ∧ 1 ≤ x.cnt) :
    ∀ d x, (tryCleanupData s d').alive d = true → (tryCleanupData s d').data d = some x → x.kind ≠ .sys →
      x.cnt = readers d (tryCleanupData s d') ∧ 1 ≤ x.cnt := by
  have hrd : ∀ d, readers d (tryCleanupData s d') = readers d s := fun d =>
    readers_eq d (by simp) (by simp)
  intro d x hal hdat hk
  rw [hrd d]
  unfold tryCleanupData at hal hdat
  split at hal
  · rename_i hal'
    split at hal
    · rename_i y hy
      split at hal
      · -- system-event data: nothing happens
        rename_i hsys
        simp only [hal', hy, hsys, ↓reduceIte] at hdat
        have := hlive d x hal hdat hk
        by_cases hdd : d = d'
        · subst hdd; rw [hy] at hdat; injection hdat with hdat; subst hdat; exact absurd hsys hk
        · simpa [hdd] using this
      · rename_i hns
        simp only [hal', hy, hns, ↓reduceIte] at hdat hal
        have hy' := hlive d' y hal' hy hns
        simp only [↓reduceIte] at hy'
        split at hal
        · -- the counter reached zero: the data entity is despawned
          rename_i hz
          simp only [hz, ↓reduceIte] at hdat
          by_cases hdd : d = d'
          · subst hdd; rw [kill_alive_self] at hal; cases hal
          · rw [kill_alive_other _ _ _ hdd] at hal
            rw [kill_data] at hdat
            simp only [hdd, ↓reduceIte, upd] at hdat
            have := hlive d x hal hdat hk
            simpa [hdd] using this
        · rename_i hnz
          simp only [hnz, ↓reduceIte] at hdat
          by_cases hdd : d = d'
          · subst hdd
            simp only [upd, ↓reduceIte] at hdat
            injection hdat with hdat; subst hdat
            dsimp only
            omega
          · simp only [upd, hdd, ↓reduceIte] at hdat
            have := hlive d x hal hdat hk
            simpa [hdd] using this
    · rename_i hy
      simp only [hal', hy, ↓reduceIte] at hdat
      have := hlive d x hal hdat hk
      by_cases hdd : d = d'
      · subst hdd; rw [hy] at hdat; cases hdat
      · simpa [hdd] using this
  · rename_i hal'
    simp only [hal', Bool.false_eq_true, ↓reduceIte] at hdat
    have := hlive d x hal hdat hk
    by_cases hdd : d = d'
    · subst hdd; rw [hal] at hal'; exact absurd rfl hal'
    · simpa [hdd] using this

end Cobweb

namespace Cobweb

theorem tryCleanupData_dead (s : St) (d : Nat) (h : DeadOK s) : DeadOK (tryCleanupData s d) := by
  unfold tryCleanupData
  split
  · rename_i hal
    split
    · rename_i y hy
      split
      · exact h
      · have h1 : DeadOK ({ s with data := upd s.data d (some { y with cnt := y.cnt - 1 }) } : St) := by
          intro e he
          simp only [upd]
          split
          · rename_i hed; subst hed; rw [hal] at he; cases he
          · exact h e he
        dsimp only
        split
        · exact (DQ.kill _ d).dead h1
        · exact h1
    · exact h
  · exact h

/-- **Cleanup of a run that read a broadcast / entity event.** -/
theorem data_cleanupK {s : St} (h : DataInv s) (k : Kind) (hu : usesEvt k = true) (hre : s.trkEvt.reacting = true)
    (hnospawn : ∀ g ∈ s.stack, ∀ d, frameSpawn d g = none) : DataInv (cleanupK s k) := by
  -- both event kinds: clear the flag(s), then `try_cleanup_data_entity` on the current data entity
  have key : ∀ s1 : St, s1.data = s.data → s1.alive = s.alive → s1.nextEnt = s.nextEnt → s1.stack = s.stack → s1.wq = s.wq →
      s1.trkEvt = { s.trkEvt with reacting := false } → DataInv (tryCleanupData s1 s.trkEvt.cur) := by
    intro s1 e1 e2 e3 e4 e5 e6
    have hr1 : ∀ d, readers d s = readers d s1 + (if d = s.trkEvt.cur then 1 else 0) := by
      intro d
      simp only [readers, prepReads, curReads, e4, e6, hre, true_and]
      by_cases hd : s.trkEvt.cur = d
      · simp [hd]
      · have : ¬ d = s.trkEvt.cur := fun h' => hd h'.symm
        simp [hd, this]
    have hrd : ∀ d, readers d (tryCleanupData s1 s.trkEvt.cur) = readers d s1 := fun d => readers_eq d (by simp) (by simp)
    constructor
    · apply tryCleanupData_live
      intro d x hal hdat hk
      rw [e2] at hal; rw [e1] at hdat
      have := h.live d x hal hdat hk
      rw [hr1 d] at this; exact this
    · intro pre g post d x hsplit hsp
      have hg : g ∈ s.stack := by rw [← e4]; simp only [tryCleanupData_stack] at hsplit; rw [hsplit]; simp
      rw [hnospawn g hg d] at hsp; cases hsp
    · intro d hd
      simp only [tryCleanupData_nextEnt, e3] at hd
      have h0 := (h.fresh d hd).1
      rw [hr1 d] at h0
      refine ⟨by rw [hrd d]; omega, ?_⟩
      intro g hg
      simp only [tryCleanupData_stack, e4] at hg
      exact hnospawn g hg d
    · apply tryCleanupData_dead
      intro d hd; rw [e1]; exact h.dead d (by rw [← e2]; exact hd)
    · simp only [tryCleanupData_wq, e5]; exact h.wq
    · intro g hg
      simp only [tryCleanupData_stack, e4] at hg
      exact h.frames g hg
  cases k <;> simp [usesEvt] at hu <;> simp only [cleanupK]
  · exact key _ rfl rfl rfl rfl rfl rfl
  · exact key _ rfl rfl rfl rfl rfl rfl

end Cobweb

namespace Cobweb

/-! ### an event with listeners: reserve the data entity, queue its spawn and one reaction per listener -/

theorem readers_zero_parts {d : Nat} {s : St} (h : readers d s = 0) :
    prepReads d s = 0 ∧ stackReads d s.stack = 0 ∧ curReads d s = 0 := by
  simp only [readers] at h; omega

theorem data_event {s1 : St} (hfd : ∀ e, s1.nextEnt ≤ e → s1.alive e = false) (h : DataInv s1)
    (hns : ∀ g ∈ s1.stack, ∀ d, frameSpawn d g = none) (hwq : s1.wq = []) (x : DataEnt) (reacts : List Cmd)
    (hk : x.kind ≠ .sys) (hreads : ∀ d', listReads d' reacts = if d' = s1.nextEnt then x.cnt else 0) (hcnt : 1 ≤ x.cnt)
    (hsemi : ∀ c ∈ reacts, semiPlain c = true) :
    DataInv (s1.fresh.2.push [.flush, .batch (.spawnData s1.nextEnt x :: reacts)]) := by
  have hq := DQ.fresh s1 h.dead (hfd _ (Nat.le_refl _))
  have hB : ∀ d', frameReads d' (.batch (.spawnData s1.nextEnt x :: reacts)) = if d' = s1.nextEnt then x.cnt else 0 := by
    intro d'; simp only [frameReads, listReads_cons, cmdReads, Nat.zero_add]; exact hreads d'
  have hrd : ∀ d', readers d' (s1.fresh.2.push [.flush, .batch (.spawnData s1.nextEnt x :: reacts)]) =
      readers d' s1 + (if d' = s1.nextEnt then x.cnt else 0) := by
    intro d'
    have e1 : prepReads d' (s1.fresh.2.push [.flush, .batch (.spawnData s1.nextEnt x :: reacts)]) = prepReads d' s1 := rfl
    have e2 : curReads d' (s1.fresh.2.push [.flush, .batch (.spawnData s1.nextEnt x :: reacts)]) = curReads d' s1 := rfl
    have e3 : stackReads d' (s1.fresh.2.push [.flush, .batch (.spawnData s1.nextEnt x :: reacts)]).stack =
        (if d' = s1.nextEnt then x.cnt else 0) + stackReads d' s1.stack := by
      have : (s1.fresh.2.push [.flush, .batch (.spawnData s1.nextEnt x :: reacts)]).stack =
          .flush :: .batch (.spawnData s1.nextEnt x :: reacts) :: s1.stack := rfl
      rw [this, stackReads_cons, stackReads_cons, hB]
      simp [frameReads]
    simp only [readers, e1, e2, e3]; omega
  have hfr := h.fresh s1.nextEnt (Nat.le_refl _)
  have hz := readers_zero_parts hfr.1
  have hdnone : s1.data s1.nextEnt = none := h.dead _ (hfd _ (Nat.le_refl _))
  constructor
  · intro d' y hal hdat hky
    have hdat1 : s1.data d' = some y := hdat
    have hne : d' ≠ s1.nextEnt := by intro he; rw [he, hdnone] at hdat1; cases hdat1
    have hal1 : s1.alive d' = true := by
      simp only [St.push, St.fresh, upd, hne, ↓reduceIte] at hal; exact hal
    rw [hrd d']; simp only [hne, ↓reduceIte, Nat.add_zero]
    exact h.live d' y hal1 hdat1 hky
  · intro pre g post d' y hsplit hsp
    -- the only frame with a pending spawn is the new batch
    simp only [St.push, List.cons_append, List.nil_append] at hsplit
    have hstack : (s1.fresh.2).stack = s1.stack := rfl
    rw [hstack] at hsplit
    cases pre with
    | nil =>
      simp only [List.nil_append, List.cons.injEq] at hsplit
      rw [← hsplit.1] at hsp; cases hsp
    | cons p pre =>
      simp only [List.cons_append, List.cons.injEq] at hsplit
      obtain ⟨hp, hrest⟩ := hsplit
      cases pre with
      | nil =>
        simp only [List.nil_append, List.cons.injEq] at hrest
        obtain ⟨hg, hpost⟩ := hrest
        subst hg hpost
        simp only [frameSpawn] at hsp
        split at hsp
        · rename_i hcond
          injection hsp with hsp; subst hsp
          obtain ⟨hdd, _⟩ := hcond
          subst hdd
          refine ⟨Or.inr ⟨by rw [← hp], hwq⟩, hdnone, by simp [St.push, St.fresh, upd], ?_, hcnt, hz.1, hz.2.2, hz.2.1⟩
          rw [hB]; simp
        · cases hsp
      | cons p2 pre =>
        simp only [List.cons_append, List.cons.injEq] at hrest
        have hg : g ∈ s1.stack := by rw [hrest.2]; simp
        rw [hns g hg d'] at hsp; cases hsp
  · intro d' hd'
    have hd1 : s1.nextEnt ≤ d' := by simp only [St.push, St.fresh] at hd'; omega
    have hne : d' ≠ s1.nextEnt := by simp only [St.push, St.fresh] at hd'; omega
    refine ⟨by rw [hrd d']; simp only [hne, ↓reduceIte, Nat.add_zero]; exact (h.fresh d' hd1).1, ?_⟩
    intro g hg
    simp only [St.push, List.cons_append, List.nil_append, List.mem_cons] at hg
    rcases hg with rfl | rfl | hg
    · rfl
    · simp only [frameSpawn]
      split
      · rename_i hcond; exact absurd hcond.1.symm hne
      · rfl
    · exact hns g hg d'
  · exact hq.dead h.dead
  · exact h.wq
  · intro g hg
    simp only [St.push, List.cons_append, List.nil_append, List.mem_cons] at hg
    rcases hg with rfl | rfl | hg
    · trivial
    · intro c hc; exact hsemi c (by simpa using hc)
    · exact h.frames g hg

end Cobweb

namespace Cobweb

/-! ### remaining helper facts -/

theorem applyCmd_trkEvt_plain (s : St) (c : Cmd) (hp : plainCmd c = true) (hc : isCleanup c = false) :
    (applyCmd s c).trkEvt = s.trkEvt := by
  cases c <;> simp only [isCleanup, plainCmd] at hc hp <;> (try (exact absurd hc (by decide))) <;>
    (try (exact absurd hp (by decide))) <;> simp only [applyCmd] <;> (try split) <;> (try split) <;> (try split) <;>
    simp [St.push, St.fresh, St.emit, setTbl]

theorem startBody_trkEvt (s : St) (sys : Nat) (k : Kind) : (startBody s sys k).trkEvt = (setupK s k sys).trkEvt := by
  have h1 : (preBody s sys k).trkEvt = (setupK s k sys).trkEvt := by
    unfold preBody; dsimp only; split <;> simp [St.emit]
  unfold startBody; dsimp only
  have : ∀ (l : List Nat) (t : St), (l.foldl (fun (s : St) pid => s.emit (Ev.dropPayload pid)) t).trkEvt = t.trkEvt := by
    intro l; induction l with
    | nil => intro t; rfl
    | cons x l ih => intro t; exact (ih _).trans rfl
  rw [this]
  show (observe (preBody s sys k) _).2.trkEvt = _
  rw [← h1]; simp

theorem foldl_emit_field {α : Type} (g : St → α) (hg : ∀ (t : St) (e : Ev), g (t.emit e) = g t) (l : List Nat) (t : St) :
    g (l.foldl (fun (s : St) pid => s.emit (Ev.dropPayload pid)) t) = g t := by
  induction l generalizing t with
  | nil => rfl
  | cons x l ih => exact (ih _).trans (hg _ _)

/-- Reading (and taking) the readers of a body modifies system-event data only. -/
theorem sameD_bumpLocal (s : St) (w : Option Nat) : SameD s (bumpLocal s w) := ⟨by simp, by simp, by simp⟩

theorem dq_observe (s : St) (w : Option Nat) : DQ s (observe s w).2 := by
  unfold observe; dsimp only
  refine DQ.right ?_ (sameD_bumpLocal _ w)
  split
  · rename_i y hy
    split
    · rename_i hcond
      have hre : s.trkSys.reacting = true := by
        cases hr : s.trkSys.reacting with
        | true => rfl
        | false => simp [hr] at hy
      have hy' : s.data s.trkSys.cur = some y := by simpa [hre] using hy
      refine ⟨Nat.le_refl _, ?_, ?_, fun _ h => Or.inl h, ?_⟩
      · intro d x hx hk
        simp only [upd] at hx
        split at hx
        · injection hx with hx; subst hx; exact absurd hcond.1 hk
        · exact hx
      · intro d hd
        simp only [upd] at hd
        split at hd
        · cases hd
        · exact Or.inl hd
      · intro hdead d ha
        simp only [upd]
        split
        · rename_i hdd; subst hdd
          have := hdead _ ha; rw [hy'] at this; cases this
        · exact hdead d ha
    · exact DQ.refl s
  · exact DQ.refl s

theorem dq_startBody (s : St) (sys : Nat) (k : Kind) : DQ s (startBody s sys k) := by
  have hpre : SameD s (preBody s sys k) := ⟨by simp, by simp, by simp⟩
  have hobs := dq_observe (preBody s sys k) (ewrOf (preBody s sys k) sys)
  refine DQ.right (DQ.left hpre hobs) ?_
  unfold startBody; dsimp only
  refine ⟨?_, ?_, ?_⟩
  · exact foldl_emit_field (fun t => t.nextEnt) (fun _ _ => rfl) _ _
  · exact foldl_emit_field (fun t => t.data) (fun _ _ => rfl) _ _
  · exact foldl_emit_field (fun t => t.alive) (fun _ _ => rfl) _ _

theorem pollRemovals_plain (s : St) : plainList (pollRemovals s).2 := by
  unfold pollRemovals
  have : ∀ (tys : List Nat) (acc : St × List Cmd), plainList acc.2 → plainList (tys.foldl pollRemStep acc).2 := by
    intro tys
    induction tys with
    | nil => intro acc h; exact h
    | cons ty tys ih =>
      intro acc h
      apply ih
      simp only [pollRemStep]
      apply plainList_append h
      intro c hc
      obtain ⟨e, _, hce⟩ := List.mem_flatMap.mp hc
      simp only [removalCmdsFor] at hce
      rcases List.mem_append.mp hce with h1 | h1
      · obtain ⟨_, _, rfl⟩ := List.mem_map.mp h1; rfl
      · obtain ⟨_, _, rfl⟩ := List.mem_map.mp h1; rfl
  exact this _ _ plainList_nil

theorem pollDespawns_plain (s : St) : plainList (pollDespawns s).2 := by
  unfold pollDespawns
  have : ∀ (es : List Nat) (acc : St × List Cmd), plainList acc.2 → plainList (es.foldl pollDspStep acc).2 := by
    intro es
    induction es with
    | nil => intro acc h; exact h
    | cons e es ih =>
      intro acc h
      apply ih
      simp only [pollDspStep]
      exact plainList_append h (plainList_map _ _ (fun _ => rfl))
  exact this _ _ plainList_nil

end Cobweb

namespace Cobweb

/-- Rearranging the control stack without changing who reads what. -/
theorem data_restack {s0 : St} (hfd : ∀ e, s0.nextEnt ≤ e → s0.alive e = false) (h : DataInv s0) (S : List Frame)
    (hr : ∀ d, stackReads d S = stackReads d s0.stack) (hns : ∀ g ∈ S, ∀ d, frameSpawn d g = none)
    (hok : ∀ g ∈ S, g.dataOK) : DataInv ({ s0 with stack := S } : St) :=
  data_same hfd h (DQ.of_same ⟨rfl, rfl, rfl⟩) (fun d => readers_eq d rfl (hr d)) hns hok h.wq

theorem frameSpawn_batch_semi {cs : List Cmd} (h : ∀ c ∈ cs, semiPlain c = true) (d : Nat) : frameSpawn d (.batch cs) = none := by
  cases cs with
  | nil => rfl
  | cons c cs =>
    have hc := h c (by simp)
    cases c <;> try rfl
    rename_i d' x
    simp only [semiPlain, beq_iff_eq] at hc
    simp [frameSpawn, hc]

end Cobweb

namespace Cobweb

theorem listReads_map_bc (d d' : Nat) (hs : List Handle) :
    listReads d' (hs.map (fun h => Cmd.reactBc d h.sys)) = if d' = d then hs.length else 0 := by
  induction hs with
  | nil => simp
  | cons a hs ih =>
    simp only [List.map_cons, listReads_cons, ih, cmdReads, List.length_cons]
    by_cases hd : d = d'
    · subst hd; simp; omega
    · have : ¬ d' = d := fun h => hd h.symm
      simp [hd, this]

theorem listReads_map_ev {α : Type} (t d d' : Nat) (l : List α) (f : α → Nat) :
    listReads d' (l.map (fun a => Cmd.reactEv t d (f a))) = if d' = d then l.length else 0 := by
  induction l with
  | nil => simp
  | cons a l ih =>
    simp only [List.map_cons, listReads_cons, ih, cmdReads, List.length_cons]
    by_cases hd : d = d'
    · subst hd; simp; omega
    · have : ¬ d' = d := fun h => hd h.symm
      simp [hd, this]

/-- What is not a plain command. -/
theorem not_plain_cases {c : Cmd} (h : plainCmd c = false) :
    (∃ d sys, c = .reactBc d sys) ∨ (∃ t d sys, c = .reactEv t d sys) ∨ (∃ d x, c = .spawnData d x ∧ x.kind ≠ .sys) := by
  cases c <;> simp [plainCmd] at h
  case reactBc d sys => exact Or.inl ⟨d, sys, rfl⟩
  case reactEv t d sys => exact Or.inr (Or.inl ⟨t, d, sys, rfl⟩)
  case spawnData d x => exact Or.inr (Or.inr ⟨d, x, rfl, h⟩)

end Cobweb

namespace Cobweb

/-- The spawn of event data is applied: the reserved entity gets its data, whose counter equals the reaction commands
    behind it in the same batch. -/
theorem data_spawn {s0 : St} (h : DataInv s0) {d : Nat} {x : DataEnt} {cs : List Cmd} {rest : List Frame}
    (hs : s0.stack = .batch (.spawnData d x :: cs) :: rest) (hk : x.kind ≠ .sys)
    (hS1 : ∀ g ∈ (Frame.flush :: Frame.batch cs :: rest), ∀ d, frameSpawn d g = none)
    (hO1 : ∀ g ∈ (Frame.flush :: Frame.batch cs :: rest), g.dataOK) :
    DataInv ({ s0 with stack := Frame.flush :: Frame.batch cs :: rest, data := upd s0.data d (some x) } : St) := by
  have hsp : frameSpawn d (.batch (.spawnData d x :: cs)) = some x := by simp [frameSpawn, hk]
  obtain ⟨_, hdn, hal, hcnt, h1le, hp0, hc0, hr0⟩ := h.window [] _ rest d x (by rw [hs]; rfl) hsp
  have hrd : ∀ d', readers d' ({ s0 with stack := Frame.flush :: Frame.batch cs :: rest, data := upd s0.data d (some x) } : St) =
      readers d' s0 := by
    intro d'
    refine readers_eq d' rfl ?_
    show stackReads d' (Frame.flush :: Frame.batch cs :: rest) = stackReads d' s0.stack
    rw [hs]; simp only [stackReads_cons, frameReads, listReads_cons, cmdReads]; omega
  constructor
  · intro d' y hal1 hdat hky
    rw [hrd d']
    have hdat' : upd s0.data d (some x) d' = some y := hdat
    simp only [upd] at hdat'
    split at hdat'
    · rename_i hdd; subst hdd
      injection hdat' with hdat'; subst hdat'
      refine ⟨?_, h1le⟩
      rw [hcnt]
      simp only [readers, hp0, hc0, hs, stackReads_cons, hr0]; omega
    · exact h.live d' y hal1 hdat' hky
  · intro pre g post d' y hsplit hsp'
    have hg : g ∈ (Frame.flush :: Frame.batch cs :: rest) := by
      have : ({ s0 with stack := Frame.flush :: Frame.batch cs :: rest, data := upd s0.data d (some x) } : St).stack =
        Frame.flush :: Frame.batch cs :: rest := rfl
      rw [this] at hsplit; rw [hsplit]; simp
    rw [hS1 g hg d'] at hsp'; cases hsp'
  · intro d' hd'
    rw [hrd d']
    exact ⟨(h.fresh d' hd').1, fun g hg => hS1 g hg d'⟩
  · intro e he
    show upd s0.data d (some x) e = none
    simp only [upd]
    split
    · rename_i hed; subst hed
      have : s0.alive e = false := he
      rw [hal] at this; cases this
    · exact h.dead e he
  · exact h.wq
  · exact hO1

/-- A reaction command of an event is applied: its reader moves from the batch to the tracker's prepared list. -/
theorem data_react {s0 s' : St} (hfd : ∀ e, s0.nextEnt ≤ e → s0.alive e = false) (h : DataInv s0) {c : Cmd} {cs : List Cmd}
    {rest : List Frame} {d sys : Nat} {g0 : Frame}
    (hs : s0.stack = .batch (c :: cs) :: rest) (hc : ∀ d', cmdReads d' c = if d = d' then 1 else 0)
    (hsame : SameD s0 s') (hwq : s'.wq = s0.wq)
    (hprep : s'.trkEvt = { s0.trkEvt with prepared := s0.trkEvt.prepared ++ [(sys, d)] })
    (hst : s'.stack = g0 :: Frame.flush :: Frame.batch cs :: rest) (hg0 : ∀ cs', g0 ≠ .batch cs') (hg0ok : g0.dataOK)
    (hS1 : ∀ g ∈ (Frame.flush :: Frame.batch cs :: rest), ∀ d, frameSpawn d g = none)
    (hO1 : ∀ g ∈ (Frame.flush :: Frame.batch cs :: rest), g.dataOK) : DataInv s' := by
  refine data_same hfd h (DQ.of_same hsame) (fun d' => ?_) ?_ ?_ (by rw [hwq]; exact h.wq)
  · have e1 : prepReads d' s' = prepReads d' s0 + (if d = d' then 1 else 0) := by
      simp only [prepReads, hprep, List.countP_append, List.countP_cons, List.countP_nil]
      by_cases hd : d = d'
      · subst hd; simp
      · have : (d == d') = false := by simp [hd]
        simp [this, hd]
    have e2 : curReads d' s' = curReads d' s0 := by simp only [curReads, hprep]
    have e3 : stackReads d' s'.stack + (if d = d' then 1 else 0) = stackReads d' s0.stack := by
      rw [hst, hs, stackReads_cons, stackReads_cons, stackReads_cons, stackReads_cons, (noData_of_notBatch hg0 d').1]
      simp only [frameReads, listReads_cons, hc d']; omega
    simp only [readers, e1, e2]; omega
  · intro g hg d'
    rw [hst] at hg
    rcases List.mem_cons.mp hg with rfl | hg
    · exact (noData_of_notBatch hg0 d').2
    · exact hS1 g hg d'
  · intro g hg
    rw [hst] at hg
    rcases List.mem_cons.mp hg with rfl | hg
    · exact hg0ok
    · exact hO1 g hg

theorem data_batch {s0 : St} {c : Cmd} {cs : List Cmd} {rest : List Frame} (I : Inv5 s0) (h : DataInv s0)
    (hs : s0.stack = .batch (c :: cs) :: rest) :
    DataInv (applyCmd (({ s0 with stack := rest } : St).push [.flush, .batch cs]) c) := by
  have hfd : ∀ e, s0.nextEnt ≤ e → s0.alive e = false := fun e he => (I.ctl.fresh e he).1
  have hfok : ∀ c' ∈ cs, semiPlain c' = true := by
    have := h.frames (.batch (c :: cs)) (by rw [hs]; simp)
    exact this
  have hnb := no_spawn_below h hs (by intro h'; cases h')
  have hwq0 : s0.wq = [] := by
    have := I.flag.top; rw [hs] at this
    rcases this with ⟨_, _, _, _, _, hw⟩ | ⟨_, _, hw⟩ <;> exact hw
  have hS1 : ∀ g ∈ (Frame.flush :: Frame.batch cs :: rest), ∀ d, frameSpawn d g = none := by
    intro g hg d
    simp only [List.mem_cons] at hg
    rcases hg with rfl | rfl | hg
    · rfl
    · exact frameSpawn_batch_semi hfok d
    · exact hnb g hg d
  have hO1 : ∀ g ∈ (Frame.flush :: Frame.batch cs :: rest), g.dataOK := by
    intro g hg
    simp only [List.mem_cons] at hg
    rcases hg with rfl | rfl | hg
    · trivial
    · intro c' hc'; exact hfok c' (List.mem_of_mem_tail hc')
    · exact h.frames g (by rw [hs]; simp [hg])
  have hR : ∀ d, stackReads d (Frame.flush :: Frame.batch cs :: rest) + cmdReads d c = stackReads d s0.stack := by
    intro d; rw [hs]; simp only [stackReads_cons, frameReads, listReads_cons]; omega
  cases hp : plainCmd c with
  | true =>
    -- the popped command holds no reader: first rearrange the stack, then apply the command
    have h1 : DataInv (({ s0 with stack := rest } : St).push [.flush, .batch cs]) :=
      data_restack hfd h _ (fun d => by
        show stackReads d (Frame.flush :: Frame.batch cs :: rest) = _
        have := hR d; rw [plain_reads hp d] at this; omega) hS1 hO1
    have hfd1 : ∀ e, (({ s0 with stack := rest } : St).push [.flush, .batch cs]).nextEnt ≤ e →
        (({ s0 with stack := rest } : St).push [.flush, .batch cs]).alive e = false := hfd
    cases hcl : isCleanup c with
    | true =>
      cases c <;> simp [isCleanup] at hcl
      rename_i k
      simp only [applyCmd]
      cases hu : usesEvt k with
      | true =>
        have hre : s0.trkEvt.reacting = true :=
          I.used k .evt (by unfold PendCleanup; rw [hs]) hu
        exact data_cleanupK h1 k hu hre hS1
      | false =>
        obtain ⟨q, he⟩ := cleanupK_other (({ s0 with stack := rest } : St).push [.flush, .batch cs]) k hu
        refine data_same hfd1 h1 q (fun d => readers_eq d he (by simp)) ?_ ?_ (by simp; exact h1.wq)
        · intro g hg d; simp only [cleanupK_stack] at hg; exact hS1 g hg d
        · intro g hg; simp only [cleanupK_stack] at hg; exact hO1 g hg
    | false =>
      cases hev : isEvtCmd c with
      | true =>
        cases c <;> simp [isEvtCmd] at hev
        case broadcast ty pid =>
          simp only [applyCmd]
          split
          · exact data_same hfd1 h1 (DQ.of_same ⟨rfl, rfl, rfl⟩) (fun d => readers_eq d rfl rfl) hS1 hO1 h1.wq
          · rename_i hne
            refine data_event hfd1 h1 hS1 hwq0 _ _ (by simp) (fun d' => ?_) ?_ ?_
            · exact listReads_map_bc _ d' _
            · cases hl : s0.tbl Tbl.bc ty with
              | nil => simp [St.push, hl] at hne
              | cons a l => simp [St.push, hl]
            · intro c' hc'; obtain ⟨_, _, rfl⟩ := List.mem_map.mp hc'; rfl
        case entityEvent e ty pid =>
          simp only [applyCmd]
          split
          · exact data_same hfd1 h1 (DQ.of_same ⟨rfl, rfl, rfl⟩) (fun d => readers_eq d rfl rfl) hS1 hO1 h1.wq
          · rename_i hne
            refine data_event hfd1 h1 hS1 hwq0 _ _ (by simp) (fun d' => ?_) ?_ ?_
            · rw [listReads_append, listReads_map_ev, listReads_map_ev]
              by_cases hd : d' = s0.nextEnt <;> simp [hd, St.fresh, St.push]
            · have hne' := hne
              simp only [St.push] at hne' ⊢
              show 1 ≤ _ + _
              omega
            · intro c' hc'
              rcases List.mem_append.mp hc' with h' | h'
              · obtain ⟨_, _, rfl⟩ := List.mem_map.mp h'; rfl
              · obtain ⟨_, _, rfl⟩ := List.mem_map.mp h'; rfl
      | false =>
        obtain ⟨q, hwq, fs, hst, hfs⟩ := dq_applyCmd (({ s0 with stack := rest } : St).push [.flush, .batch cs]) c hp hcl hev h1.dead
        have he := applyCmd_trkEvt_plain (({ s0 with stack := rest } : St).push [.flush, .batch cs]) c hp hcl
        refine data_same hfd1 h1 q (fun d => readers_eq d he ?_) ?_ ?_ (by rw [hwq]; exact h1.wq)
        · rw [hst]; exact stackReads_append_noData d fs _ (fun g hg => (hfs g hg).1)
        · intro g hg d
          rw [hst] at hg
          rcases List.mem_append.mp hg with h' | h'
          · exact ((hfs g h').1 d).2
          · exact hS1 g h' d
        · intro g hg
          rw [hst] at hg
          rcases List.mem_append.mp hg with h' | h'
          · exact (hfs g h').2
          · exact hO1 g h'
  | false =>
    rcases not_plain_cases hp with ⟨d, sys, rfl⟩ | ⟨t, d, sys, rfl⟩ | ⟨d, x, rfl, hk⟩
    · simp only [applyCmd]
      exact data_react (d := d) (sys := sys) (g0 := .runnerStart sys (.bcEv d)) hfd h hs (fun d' => by simp [cmdReads])
        ⟨rfl, rfl, rfl⟩ rfl rfl rfl (by intro cs' h'; cases h') trivial hS1 hO1
    · simp only [applyCmd]
      exact data_react (d := d) (sys := sys) (g0 := .runnerStart sys (.entEv t d)) hfd h hs (fun d' => by simp [cmdReads])
        ⟨rfl, rfl, rfl⟩ rfl rfl rfl (by intro cs' h'; cases h') trivial hS1 hO1
    · have hsp : frameSpawn d (.batch (.spawnData d x :: cs)) = some x := by simp [frameSpawn, hk]
      have hal := (h.window [] _ rest d x (by rw [hs]; rfl) hsp).2.2.1
      simp only [applyCmd]
      have hal' : (({ s0 with stack := rest } : St).push [.flush, .batch cs]).alive d = true := hal
      simp only [hal', ↓reduceIte]
      exact data_spawn h hs hk hS1 hO1

end Cobweb

namespace Cobweb

macro "nb" : tactic => `(tactic| (intro cs' h'; cases h'))

/-- **The counting invariant of event data is preserved by every frame.** -/
theorem data_runFrame (p : Prog) (hh : Hist) {s0 : St} {f : Frame} {rest : List Frame} (I : Inv5 s0) (h : DataInv s0)
    (hs : s0.stack = f :: rest) : DataInv (runFrame p hh { s0 with stack := rest } f) := by
  have hfd : ∀ e, s0.nextEnt ≤ e → s0.alive e = false := fun e he => (I.ctl.fresh e he).1
  have htop : TopOK s0 f := by have := I.flag.top; rw [hs] at this; exact this
  have hfdp : ∀ e, ({ s0 with stack := rest } : St).nextEnt ≤ e → ({ s0 with stack := rest } : St).alive e = false := hfd
  -- quiet frames: `data_quiet` with the obvious arguments
  have quiet : ∀ (s' : St) (fs : List Frame), (∀ cs, f ≠ .batch cs) → f ≠ .flush →
      DQ ({ s0 with stack := rest } : St) s' → s'.trkEvt = s0.trkEvt → s'.stack = fs ++ rest → FramesQuiet fs →
      plainList s'.wq → DataInv s' :=
    fun s' fs h1 h2 q he hst hfs hwq => data_quiet hfd h hs q he (noData_of_notBatch h1) h2 hst hfs hwq
  cases f with
  | batch cs =>
    simp only [runFrame]
    cases cs with
    | nil =>
      simp only [doBatch]
      exact data_quiet (fs := []) hfd h hs (DQ.refl _) rfl (noData_batch_plain plainList_nil) (by intro h'; cases h') rfl
        framesQuiet_nil h.wq
    | cons c cs => simp only [doBatch]; exact data_batch I h hs
  | flush =>
    simp only [runFrame, doFlush]
    split
    · -- nothing to flush: the frame is popped; a pending spawn right below becomes the top
      refine ⟨?_, ?_, ?_, h.dead, h.wq, fun g hg => h.frames g (by rw [hs]; simp [hg])⟩
      · intro d x hal hdat hk
        have := h.live d x hal hdat hk
        simpa [readers, prepReads, curReads, hs, stackReads_cons, frameReads] using this
      · intro pre g post d x hsplit hsp
        have hsplit0 : s0.stack = (Frame.flush :: pre) ++ g :: post := by rw [hs]; simp; exact hsplit
        obtain ⟨hpos, rest'⟩ := h.window (Frame.flush :: pre) g post d x hsplit0 hsp
        refine ⟨?_, rest'⟩
        rcases hpos with h1 | ⟨h1, _⟩
        · cases h1
        · simp only [List.cons.injEq, true_and] at h1; exact Or.inl h1
      · intro d hd
        have := h.fresh d hd
        refine ⟨?_, fun g hg => this.2 g (by rw [hs]; simp [hg])⟩
        simpa [readers, prepReads, curReads, hs, stackReads_cons, frameReads] using this.1
    · rename_i hne
      -- the world queue becomes a batch; it holds plain commands only
      have hnb : ∀ g ∈ rest, ∀ d, frameSpawn d g = none := by
        intro g hg d
        cases hsp : frameSpawn d g with
        | none => rfl
        | some x =>
          exfalso
          obtain ⟨a, b, hab⟩ := List.append_of_mem hg
          have := (h.window (Frame.flush :: a) g b d x (by rw [hs, hab]; simp) hsp).1
          rcases this with h1 | ⟨_, h1⟩
          · cases h1
          · apply hne; show s0.wq.isEmpty = true; rw [h1]; rfl
      refine data_same hfd h (DQ.of_same ⟨rfl, rfl, rfl⟩) (fun d => readers_eq d rfl ?_) ?_ ?_ plainList_nil
      · show stackReads d (Frame.batch s0.wq :: rest) = stackReads d s0.stack
        rw [hs, stackReads_cons, stackReads_cons, (noData_batch_plain h.wq d).1]; rfl
      · intro g hg d
        rcases List.mem_cons.mp hg with rfl | hg
        · exact (noData_batch_plain h.wq d).2
        · exact hnb g (by simpa using hg) d
      · intro g hg
        rcases List.mem_cons.mp hg with rfl | hg
        · exact dataOK_batch_plain h.wq
        · have hg' : g ∈ rest := by simpa using hg
          exact h.frames g (by rw [hs]; exact List.mem_cons_of_mem _ hg')
  | bodyActs sys k i acc =>
    have hacc : plainList acc := by
      have := h.frames (.bodyActs sys k i acc) (by rw [hs]; simp)
      exact this
    simp only [runFrame, doBodyActs]
    split
    · refine quiet _ [.cleanup k, .flush, .batch acc] (by nb) (by intro h'; cases h') (DQ.of_same ⟨rfl, rfl, rfl⟩) rfl rfl ?_ h.wq
      intro g hg; simp at hg
      rcases hg with rfl | rfl | rfl
      · exact ⟨noData_of_notBatch (by nb), trivial⟩
      · exact ⟨noData_of_notBatch (by nb), trivial⟩
      · exact ⟨noData_batch_plain hacc, dataOK_batch_plain hacc⟩
    · rename_i a _
      refine quiet _ [.bodyActs sys k (i + 1) (acc ++ (enqueue ({ s0 with stack := rest } : St) a).2)] (by nb) (by intro h'; cases h')
        (DQ.right (dq_enqueue _ a h.dead hfd) ⟨rfl, rfl, rfl⟩) (by simp [St.push]) (by simp [St.push]) ?_ (by simp [St.push]; exact h.wq)
      exact framesQuiet_one (by nb) (plainList_append hacc (plain_enqueue _ a))
  | exclActs sys i =>
    simp only [runFrame, doExclActs]
    split
    · exact quiet _ [.flush] (by nb) (by intro h'; cases h') (DQ.of_same ⟨rfl, rfl, rfl⟩) rfl rfl
        (framesQuiet_one (by nb) trivial) h.wq
    · rename_i t _
      exact quiet _ [.runnerStart t .plain, .exclActs sys (i + 1)] (by nb) (by intro h'; cases h') (DQ.of_same ⟨rfl, rfl, rfl⟩) rfl rfl
        (framesQuiet_append (a := [Frame.runnerStart t .plain]) (b := [Frame.exclActs sys (i + 1)]) (framesQuiet_one (by nb) trivial) (framesQuiet_one (by nb) trivial)) h.wq
    · rename_i a _ _
      split
      · refine quiet _ [.flush, .exclActs sys (i + 1)] (by nb) (by intro h'; cases h')
          (DQ.right (dq_enqueue _ a h.dead hfd) ⟨rfl, rfl, rfl⟩) (by simp [St.push]) (by simp [St.push])
          (framesQuiet_append (a := [Frame.flush]) (b := [Frame.exclActs sys (i + 1)]) (framesQuiet_one (by nb) trivial) (framesQuiet_one (by nb) trivial)) ?_
        simp only [St.push, enqueue_wq]
        exact plainList_append h.wq (plain_enqueue _ a)
      · refine quiet _ [.exclActs sys (i + 1)] (by nb) (by intro h'; cases h')
          (DQ.right (dq_enqueue _ a h.dead hfd) ⟨rfl, rfl, rfl⟩) (by simp [St.push]) (by simp [St.push])
          (framesQuiet_one (by nb) trivial) ?_
        simp only [St.push, enqueue_wq]
        exact plainList_append h.wq (plain_enqueue _ a)
  | topActs t i =>
    simp only [runFrame, doTopActs]
    split
    · exact quiet _ [.flush] (by nb) (by intro h'; cases h') (DQ.of_same ⟨rfl, rfl, rfl⟩) rfl rfl
        (framesQuiet_one (by nb) trivial) h.wq
    · rename_i a _
      refine quiet _ [.topActs t (i + 1)] (by nb) (by intro h'; cases h')
        (DQ.right (dq_enqueue _ a h.dead hfd) ⟨rfl, rfl, rfl⟩) (by simp [St.push]) (by simp [St.push])
        (framesQuiet_one (by nb) trivial) ?_
      simp only [St.push, enqueue_wq]
      exact plainList_append h.wq (plain_enqueue _ a)
  | cleanup k =>
    simp only [runFrame]
    have hnb := no_spawn_below h hs (by intro h'; cases h')
    have h1 : DataInv ({ s0 with stack := rest } : St) :=
      data_restack hfd h rest (fun d => by rw [hs, stackReads_cons]; simp [frameReads]) hnb
        (fun g hg => h.frames g (by rw [hs]; simp [hg]))
    cases hu : usesEvt k with
    | true =>
      have hre : s0.trkEvt.reacting = true := I.used k .evt (by unfold PendCleanup; rw [hs]) hu
      exact data_cleanupK h1 k hu hre hnb
    | false =>
      obtain ⟨q, he⟩ := cleanupK_other ({ s0 with stack := rest } : St) k hu
      exact data_same hfdp h1 q (fun d => readers_eq d he (by simp)) (by simpa using hnb)
        (by simp; exact fun g hg => h.frames g (by rw [hs]; simp [hg])) (by simp; exact h.wq)
  | onceTail sys =>
    refine quiet _ [.flush, .dropCallback sys] (by nb) (by intro h'; cases h')
      (DQ.right (DQ.despawn1 _ sys) ⟨by simp [runFrame, doOnceTail, St.push], by simp [runFrame, doOnceTail, St.push],
        by simp [runFrame, doOnceTail, St.push]⟩)
      (by simp [runFrame, doOnceTail, St.push]) (by simp [runFrame, doOnceTail, St.push]) ?_ ?_
    · intro g hg; simp at hg; rcases hg with rfl | rfl <;> exact ⟨noData_of_notBatch (by nb), trivial⟩
    · simp only [runFrame, doOnceTail, St.push, despawn1_wq]
      exact plainList_append h.wq (plainList_cons rfl plainList_nil)
  | dropCallback sys =>
    exact quiet _ [] (by nb) (by intro h'; cases h') (DQ.of_same ⟨rfl, rfl, rfl⟩) rfl rfl framesQuiet_nil h.wq
  | runnerStart sys k =>
    refine quiet _ [.gc, .poll, .runnerLookup sys k s0.counter] (by nb) (by intro h'; cases h') (DQ.of_same ⟨rfl, rfl, rfl⟩) rfl
      (by simp [runFrame, doRunnerStart, St.push, St.emit]) ?_ h.wq
    intro g hg; simp at hg; rcases hg with rfl | rfl | rfl <;> exact ⟨noData_of_notBatch (by nb), trivial⟩
  | runnerLookup sys k idx =>
    obtain ⟨hidle, _⟩ := htop
    have hre : s0.trkEvt.reacting = false := by
      simp only [Idle, Fl, Prod.mk.injEq] at hidle; exact hidle.2.1
    simp only [runFrame, doRunnerLookup]
    have habort : ∀ ev : Ev, DataInv ((({ s0 with stack := rest } : St).emit ev).push (abortFrames sys k)) := by
      intro ev
      refine quiet _ (abortFrames sys k) (by nb) (by intro h'; cases h') (DQ.of_same ⟨rfl, rfl, rfl⟩) rfl rfl ?_ h.wq
      intro g hg; simp [abortFrames] at hg; rcases hg with rfl | rfl | rfl <;> exact ⟨noData_of_notBatch (by nb), trivial⟩
    split
    · exact habort _
    · split
      · exact habort _
      · split
        · exact habort _
        · exact quiet _ [] (by nb) (by intro h'; cases h') (DQ.of_same ⟨rfl, rfl, rfl⟩) rfl rfl framesQuiet_nil h.wq
      · -- the callback is taken; `setup` may claim a prepared entry
        have hnb := no_spawn_below h hs (by intro h'; cases h')
        have body : ∀ (s' : St) (fs : List Frame), DQ ({ s0 with stack := rest } : St) s' →
            s'.trkEvt = (setupK ({ s0 with stack := rest, storage := upd s0.storage sys (some false), counter := s0.counter + 1 } : St) k sys).trkEvt →
            s'.stack = fs ++ rest → FramesQuiet fs → plainList s'.wq → DataInv s' := by
          intro s' fs q he hst hfs hwq
          refine data_same hfd h (DQ.left (s1 := ({ s0 with stack := rest } : St)) ⟨rfl, rfl, rfl⟩ q) (fun d => ?_) ?_ ?_ hwq
          · have h1 := setupK_readers ({ s0 with stack := rest, storage := upd s0.storage sys (some false), counter := s0.counter + 1 } : St) k sys d hre
            have h2 : readers d s' = trkReads d (setupK ({ s0 with stack := rest, storage := upd s0.storage sys (some false), counter := s0.counter + 1 } : St) k sys) + stackReads d rest := by
              rw [readers_split, hst, stackReads_append_noData d fs rest (fun g hg => (hfs g hg).1)]
              simp only [trkReads, prepReads, curReads, he]
            have h3 : readers d (setupK ({ s0 with stack := rest, storage := upd s0.storage sys (some false), counter := s0.counter + 1 } : St) k sys) =
                trkReads d (setupK ({ s0 with stack := rest, storage := upd s0.storage sys (some false), counter := s0.counter + 1 } : St) k sys) + stackReads d rest := by
              rw [readers_split]; simp
            have h4 : readers d ({ s0 with stack := rest, storage := upd s0.storage sys (some false), counter := s0.counter + 1 } : St) = readers d s0 := by
              simp only [readers, prepReads, curReads, hs, stackReads_cons, frameReads]; omega
            omega
          · intro g hg d
            rw [hst] at hg
            rcases List.mem_append.mp hg with h' | h'
            · exact ((hfs g h').1 d).2
            · exact hnb g h' d
          · intro g hg
            rw [hst] at hg
            rcases List.mem_append.mp hg with h' | h'
            · exact (hfs g h').2
            · exact h.frames g (by rw [hs]; simp [h'])
        split
        · refine body _ [.afterBody sys idx] (DQ.of_same ⟨by simp [St.push, St.emit], by simp [St.push, St.emit], by simp [St.push, St.emit]⟩)
            (by simp [St.push, St.emit]) (by simp [St.push, St.emit]) (framesQuiet_one (by nb) trivial) (by simp [St.push, St.emit]; exact h.wq)
        · have hq : DQ ({ s0 with stack := rest } : St) (startBody ({ s0 with stack := rest, storage := upd s0.storage sys (some false), counter := s0.counter + 1 } : St) sys k) :=
            DQ.left (s1 := ({ s0 with stack := rest, storage := upd s0.storage sys (some false), counter := s0.counter + 1 } : St)) ⟨rfl, rfl, rfl⟩ (dq_startBody _ sys k)
          split
          · refine body _ [.bodyActs sys k 0 [], .onceTail sys, .afterBody sys idx] (DQ.right hq ⟨rfl, rfl, rfl⟩)
              (by simp only [St.push]; exact startBody_trkEvt _ sys k) (by simp [St.push]) ?_ (by simp [St.push]; exact h.wq)
            intro g hg; simp at hg
            rcases hg with rfl | rfl | rfl
            · exact ⟨noData_of_notBatch (by nb), plainList_nil⟩
            · exact ⟨noData_of_notBatch (by nb), trivial⟩
            · exact ⟨noData_of_notBatch (by nb), trivial⟩
          · split
            · refine body _ [.exclActs sys 0, .afterBody sys idx] (DQ.right hq ⟨rfl, rfl, rfl⟩)
                (by simp only [St.push]; exact startBody_trkEvt _ sys k) (by simp [St.push]) ?_ ?_
              · intro g hg; simp at hg
                rcases hg with rfl | rfl <;> exact ⟨noData_of_notBatch (by nb), trivial⟩
              · simp only [St.push, startBody_wq]
                exact plainList_append h.wq (plainList_cons rfl plainList_nil)
            · refine body _ [.bodyActs sys k 0 [], .afterBody sys idx] (DQ.right hq ⟨rfl, rfl, rfl⟩)
                (by simp only [St.push]; exact startBody_trkEvt _ sys k) (by simp [St.push]) ?_ (by simp [St.push]; exact h.wq)
              intro g hg; simp at hg
              rcases hg with rfl | rfl
              · exact ⟨noData_of_notBatch (by nb), plainList_nil⟩
              · exact ⟨noData_of_notBatch (by nb), trivial⟩
  | afterBody sys idx =>
    refine quiet _ [.gc, .reinsert sys idx] (by nb) (by intro h'; cases h') (DQ.of_same ⟨rfl, rfl, rfl⟩) rfl
      (by simp [runFrame, doAfterBody, St.push, St.emit]) ?_ h.wq
    intro g hg; simp at hg; rcases hg with rfl | rfl <;> exact ⟨noData_of_notBatch (by nb), trivial⟩
  | reinsert sys idx =>
    simp only [runFrame, doReinsert]
    split
    · exact quiet _ [.poll, .replayTake sys idx] (by nb) (by intro h'; cases h') (DQ.of_same ⟨rfl, rfl, rfl⟩) rfl (by simp [St.push, St.emit])
        (by intro g hg; simp at hg; rcases hg with rfl | rfl <;> exact ⟨noData_of_notBatch (by nb), trivial⟩) h.wq
    · split <;>
        exact quiet _ [.despawnWork [(sys, false)], .gc, .poll, .replayTake sys idx] (by nb) (by intro h'; cases h')
          (DQ.of_same ⟨by simp [St.push, St.emit], by simp [St.push, St.emit], by simp [St.push, St.emit]⟩) (by simp [St.push, St.emit])
          (by simp [St.push, St.emit]) (by intro g hg; simp at hg; rcases hg with rfl | rfl | rfl | rfl <;> exact ⟨noData_of_notBatch (by nb), trivial⟩)
          (by simp [St.push, St.emit]; exact h.wq)
    · split <;>
        exact quiet _ [.gc, .poll, .replayTake sys idx] (by nb) (by intro h'; cases h')
          (DQ.of_same ⟨by simp [St.push, St.emit], by simp [St.push, St.emit], by simp [St.push, St.emit]⟩) (by simp [St.push, St.emit])
          (by simp [St.push, St.emit]) (by intro g hg; simp at hg; rcases hg with rfl | rfl | rfl <;> exact ⟨noData_of_notBatch (by nb), trivial⟩)
          (by simp [St.push, St.emit]; exact h.wq)
  | replayTake sys idx =>
    exact quiet _ [.replayLoop sys s0.buffered [] idx] (by nb) (by intro h'; cases h') (DQ.of_same ⟨rfl, rfl, rfl⟩) rfl
      (by simp [runFrame, doReplayTake, St.push]) (framesQuiet_one (by nb) trivial) h.wq
  | replayLoop sys r kept idx =>
    simp only [runFrame, doReplayLoop]
    split
    · exact quiet _ [.finish sys idx] (by nb) (by intro h'; cases h') (DQ.of_same ⟨rfl, rfl, rfl⟩) rfl (by simp [St.push])
        (framesQuiet_one (by nb) trivial) h.wq
    · rename_i b bs
      split
      · refine quiet _ [.runnerStart b.1 b.2, .replayLoop sys bs kept idx] (by nb) (by intro h'; cases h') (DQ.of_same ⟨rfl, rfl, rfl⟩) rfl
          (by simp [St.push, St.emit]) ?_ h.wq
        intro g hg; simp at hg; rcases hg with rfl | rfl <;> exact ⟨noData_of_notBatch (by nb), trivial⟩
      · exact quiet _ [.replayLoop sys bs (kept ++ [b]) idx] (by nb) (by intro h'; cases h') (DQ.of_same ⟨rfl, rfl, rfl⟩) rfl
          (by simp [St.push]) (framesQuiet_one (by nb) trivial) h.wq
  | finish sys idx =>
    simp only [runFrame, doFinish]
    split
    · split
      · exact quiet _ [] (by nb) (by intro h'; cases h') (DQ.of_same ⟨rfl, rfl, rfl⟩) rfl rfl framesQuiet_nil h.wq
      · rename_i b bs _
        refine quiet _ (abortFrames b.1 b.2 ++ [Frame.finish sys idx]) (by nb) (by intro h'; cases h') (DQ.of_same ⟨rfl, rfl, rfl⟩) rfl
          (by simp [St.push, St.emit]) ?_ h.wq
        intro g hg; simp [abortFrames] at hg
        rcases hg with rfl | rfl | rfl | rfl <;> exact ⟨noData_of_notBatch (by nb), trivial⟩
    · exact quiet _ [] (by nb) (by intro h'; cases h') (DQ.of_same ⟨rfl, rfl, rfl⟩) rfl rfl framesQuiet_nil h.wq
  | abort sys k =>
    obtain ⟨hidle, _⟩ := htop
    have hre : s0.trkEvt.reacting = false := by
      simp only [Idle, Fl, Prod.mk.injEq] at hidle; exact hidle.2.1
    simp only [runFrame]
    have hnb := no_spawn_below h hs (by intro h'; cases h')
    have h1 : DataInv ({ s0 with stack := rest } : St) :=
      data_restack hfd h rest (fun d => by rw [hs, stackReads_cons]; simp [frameReads]) hnb
        (fun g hg => h.frames g (by rw [hs]; simp [hg]))
    have h2 : DataInv (setupK ({ s0 with stack := rest } : St) k sys) :=
      data_same hfdp h1 (DQ.of_same (setupK_sameD _ k sys)) (fun d => setupK_readers _ k sys d hre) (by simpa using hnb)
        (by simp; exact fun g hg => h.frames g (by rw [hs]; simp [hg])) (by simp; exact h.wq)
    cases hu : usesEvt k with
    | true =>
      have hin : ∀ key, keyOf .evt k = some key → (sys, key) ∈ prepD .evt s0 := fun key hk =>
        prepD_mem_of_pending I.pendD .evt sys k key hk (by simp [allPending, hs, stackPending_cons, framePending])
      have hre' : (setupK ({ s0 with stack := rest } : St) k sys).trkEvt.reacting = true :=
        setupK_sets .evt _ k sys hu hin
      exact data_cleanupK h2 k hu hre' (by simpa using hnb)
    | false =>
      obtain ⟨q, he⟩ := cleanupK_other (setupK ({ s0 with stack := rest } : St) k sys) k hu
      have hfd2 : ∀ e, (setupK ({ s0 with stack := rest } : St) k sys).nextEnt ≤ e →
          (setupK ({ s0 with stack := rest } : St) k sys).alive e = false := by simpa using hfd
      exact data_same hfd2 h2 q (fun d => readers_eq d he (by simp)) (by simpa using hnb)
        (by simp; exact fun g hg => h.frames g (by rw [hs]; simp [hg])) (by simp; exact h.wq)
  | gc =>
    simp only [runFrame, doGc]
    split
    · exact quiet _ [] (by nb) (by intro h'; cases h') (DQ.refl _) rfl rfl framesQuiet_nil h.wq
    · refine quiet _ [.despawnWork _, .gc] (by nb) (by intro h'; cases h') (DQ.of_same ⟨rfl, rfl, rfl⟩) rfl rfl ?_ h.wq
      intro g hg; simp at hg; rcases hg with rfl | rfl <;> exact ⟨noData_of_notBatch (by nb), trivial⟩
  | despawnWork work =>
    simp only [runFrame, doDespawnWork]
    split
    · exact quiet _ [] (by nb) (by intro h'; cases h') (DQ.refl _) rfl rfl framesQuiet_nil h.wq
    · split
      · rename_i e ex work _
        split
        · exact quiet _ [.despawnWork work] (by nb) (by intro h'; cases h') (DQ.right (DQ.despawn1 _ e) ⟨rfl, rfl, rfl⟩) (by simp [St.push])
            (by simp [St.push]) (framesQuiet_one (by nb) trivial) (by simp [St.push]; exact h.wq)
        · refine quiet _ [.flush, .despawnWork _] (by nb) (by intro h'; cases h') (DQ.of_same ⟨rfl, rfl, rfl⟩) rfl rfl ?_ h.wq
          intro g hg; simp at hg; rcases hg with rfl | rfl <;> exact ⟨noData_of_notBatch (by nb), trivial⟩
      · split
        · exact quiet _ [.despawnWork _] (by nb) (by intro h'; cases h') (DQ.of_same ⟨rfl, rfl, rfl⟩) rfl rfl (framesQuiet_one (by nb) trivial) h.wq
        · exact quiet _ [.despawnWork _] (by nb) (by intro h'; cases h') (DQ.of_same ⟨rfl, rfl, rfl⟩) rfl rfl (framesQuiet_one (by nb) trivial) h.wq
  | poll =>
    refine quiet _ [.flush] (by nb) (by intro h'; cases h') (DQ.of_same ⟨by simp [runFrame, doPoll, St.push], by simp [runFrame, doPoll, St.push],
      by simp [runFrame, doPoll, St.push]⟩) (by simp [runFrame, doPoll, St.push]) (by simp [runFrame, doPoll, St.push])
      (framesQuiet_one (by nb) trivial) ?_
    simp only [runFrame, doPoll, St.push, pollDespawns_wq, pollRemovals_wq]
    exact plainList_append (plainList_append h.wq (pollRemovals_plain _)) (pollDespawns_plain _)

end Cobweb

namespace Cobweb

theorem data_startTop {s : St} (hfd : ∀ e, s.nextEnt ≤ e → s.alive e = false) (h : DataInv s) (hst : s.stack = [])
    (hw : s.wq = []) (t : Nat) (op : TopOp) : DataInv (startTop s t op) := by
  have hns0 : ∀ g ∈ s.stack, ∀ d, frameSpawn d g = none := by rw [hst]; intro g hg; cases hg
  -- steps that keep data, liveness and the event tracker, and push frames that are not batches
  have simple : ∀ (s' : St) (fs : List Frame), DQ s s' → s'.trkEvt = s.trkEvt → s'.stack = fs → FramesQuiet fs →
      s'.wq = s.wq → DataInv s' := by
    intro s' fs q he hs' hfs hwq
    refine data_same hfd h q (fun d => readers_eq d he ?_) ?_ ?_ (by rw [hwq]; exact h.wq)
    · rw [hs', hst]
      have := stackReads_append_noData d fs [] (fun g hg => (hfs g hg).1)
      simpa using this
    · intro g hg d; rw [hs'] at hg; exact ((hfs g hg).1 d).2
    · intro g hg; rw [hs'] at hg; exact (hfs g hg).2
  have happly : ∀ (s1 : St) (c : Cmd), SameD s s1 → s1.trkEvt = s.trkEvt → s1.stack = [] → s1.wq = [] →
      plainCmd c = true → isCleanup c = false → isEvtCmd c = false → DataInv (applyCmd s1 c) := by
    intro s1 c hsame he h1 h2 hp hc hev
    have hd1 : DeadOK s1 := by
      intro d hd; rw [hsame.2.1]; exact h.dead d (by rw [← hsame.2.2]; exact hd)
    obtain ⟨q, hwq, fs, hfs, hq⟩ := dq_applyCmd s1 c hp hc hev hd1
    exact simple _ fs (DQ.left hsame q) ((applyCmd_trkEvt_plain s1 c hp hc).trans he) (by rw [hfs, h1]; simp) hq
      (by rw [hwq, h2, hw])
  have hevent : ∀ (s1 : St), SameD s s1 → s1.trkEvt = s.trkEvt → s1.stack = [] → s1.wq = [] → DataInv s1 := by
    intro s1 hsame he h1 h2
    exact simple s1 [] (DQ.of_same hsame) he h1 framesQuiet_nil (by rw [h2, hw])
  unfold startTop
  cases op <;> dsimp only
  case acts => exact simple _ [.topActs t 0] (DQ.of_same ⟨rfl, rfl, rfl⟩) rfl (by simp [St.push, St.emit, hst]) (framesQuiet_one (by nb) trivial) rfl
  case wDespawn e =>
    exact simple _ [] (DQ.left (s1 := s.emit (.top t)) ⟨rfl, rfl, rfl⟩ (DQ.despawn1 _ e)) (by simp [St.emit]) (by simp [St.emit, hst]) framesQuiet_nil
      (by simp [St.emit])
  case wDespawnRec e =>
    exact simple _ [.despawnWork [(e, false)]] (DQ.of_same ⟨rfl, rfl, rfl⟩) rfl (by simp [St.push, St.emit, hst]) (framesQuiet_one (by nb) trivial) rfl
  case wRemove e ty => exact happly _ _ ⟨rfl, rfl, rfl⟩ rfl (by simp [St.emit, hst]) (by simp [St.emit, hw]) rfl rfl rfl
  case wInsertRaw e ty v => exact happly _ _ ⟨rfl, rfl, rfl⟩ rfl (by simp [St.emit, hst]) (by simp [St.emit, hw]) rfl rfl rfl
  case wSetParent c p =>
    split
    · exact simple _ [] (DQ.of_same ⟨rfl, rfl, rfl⟩) rfl (by simp [St.emit, hst]) framesQuiet_nil rfl
    · exact simple _ [] (DQ.of_same ⟨rfl, rfl, rfl⟩) rfl (by simp [St.emit, hst]) framesQuiet_nil rfl
  case gc => exact simple _ [.gc] (DQ.of_same ⟨rfl, rfl, rfl⟩) rfl (by simp [St.push, St.emit, hst]) (framesQuiet_one (by nb) trivial) rfl
  case poll => exact simple _ [.poll] (DQ.of_same ⟨rfl, rfl, rfl⟩) rfl (by simp [St.push, St.emit, hst]) (framesQuiet_one (by nb) trivial) rfl
  case frameEnd =>
    refine simple _ [.gc, .poll] (DQ.of_same ⟨rfl, rfl, rfl⟩) rfl (by simp [St.push, St.emit, hst]) ?_ rfl
    intro g hg; simp at hg; rcases hg with rfl | rfl <;> exact ⟨noData_of_notBatch (by nb), trivial⟩
  case clearTrackers => exact simple _ [] (DQ.of_same ⟨rfl, rfl, rfl⟩) rfl (by simp [St.emit, hst]) framesQuiet_nil rfl
  case wSysEvent sys ty pid =>
    simp only [applyCmd]
    refine simple _ [.runnerStart sys (.sysEv s.nextEnt)] ?_ (by simp [St.push, St.emit, St.fresh])
      (by simp [St.push, St.emit, St.fresh, hst]) (framesQuiet_one (by nb) trivial) (by simp [St.push, St.emit, St.fresh])
    refine ⟨by simp [St.push, St.emit, St.fresh], ?_, ?_, ?_, ?_⟩
    · intro d x hx hk
      simp only [St.push, St.emit, St.fresh, upd] at hx
      split at hx
      · injection hx with hx; subst hx; exact absurd rfl hk
      · exact hx
    · intro d hd
      simp only [St.push, St.emit, St.fresh, upd] at hd
      split at hd
      · cases hd
      · exact Or.inl hd
    · intro d hd
      simp only [St.push, St.emit, St.fresh, upd] at hd
      split at hd
      · rename_i hdd; exact Or.inr (by omega)
      · exact Or.inl hd
    · intro hdead d ha
      simp only [St.push, St.emit, St.fresh, upd] at ha ⊢
      split
      · rename_i hdd; simp [hdd] at ha
      · rename_i hdd; simp only [hdd, ↓reduceIte] at ha; exact hdead d ha
  case wBroadcast ty pid =>
    have h1 : DataInv ((s.emit (.top t)).emit (.send pid)) := hevent _ ⟨rfl, rfl, rfl⟩ rfl (by simp [St.emit, hst]) (by simp [St.emit, hw])
    simp only [applyCmd]
    split
    · exact hevent _ ⟨rfl, rfl, rfl⟩ rfl (by simp [St.emit, hst]) (by simp [St.emit, hw])
    · rename_i hne
      have hfd1 : ∀ e, ((s.emit (.top t)).emit (.send pid)).nextEnt ≤ e → ((s.emit (.top t)).emit (.send pid)).alive e = false := hfd
      refine data_event hfd1 h1 (by simp [St.emit, hst]) (by simp [St.emit, hw]) _ _ (by simp) (fun d' => listReads_map_bc _ d' _) ?_ ?_
      · cases hl : s.tbl Tbl.bc ty with
        | nil => simp [St.emit, hl] at hne
        | cons a l => simp [St.emit, hl]
      · intro c' hc'; obtain ⟨_, _, rfl⟩ := List.mem_map.mp hc'; rfl
  case wEntityEvent e ty pid =>
    have h1 : DataInv ((s.emit (.top t)).emit (.send pid)) := hevent _ ⟨rfl, rfl, rfl⟩ rfl (by simp [St.emit, hst]) (by simp [St.emit, hw])
    simp only [applyCmd]
    split
    · exact hevent _ ⟨rfl, rfl, rfl⟩ rfl (by simp [St.emit, hst]) (by simp [St.emit, hw])
    · rename_i hne
      have hfd1 : ∀ e, ((s.emit (.top t)).emit (.send pid)).nextEnt ≤ e → ((s.emit (.top t)).emit (.send pid)).alive e = false := hfd
      refine data_event hfd1 h1 (by simp [St.emit, hst]) (by simp [St.emit, hw]) _ _ (by simp) (fun d' => ?_) ?_ ?_
      · rw [listReads_append, listReads_map_ev, listReads_map_ev]
        by_cases hd : d' = s.nextEnt <;> simp [hd, St.fresh, St.emit]
      · have hne' := hne
        simp only [St.emit] at hne' ⊢
        show 1 ≤ _ + _
        omega
      · intro c' hc'
        rcases List.mem_append.mp hc' with h' | h'
        · obtain ⟨_, _, rfl⟩ := List.mem_map.mp h'; rfl
        · obtain ⟨_, _, rfl⟩ := List.mem_map.mp h'; rfl
  case sigPrepare e => exact hevent _ ⟨rfl, rfl, rfl⟩ rfl (by simp [St.emit, newArc, hst]) (by simp [St.emit, newArc, hw])
  case sigClone a =>
    split
    · exact hevent _ ⟨by simp [St.emit], by simp [St.emit], by simp [St.emit]⟩ (by simp [St.emit]) (by simp [St.emit, hst]) (by simp [St.emit, hw])
    · exact hevent _ ⟨rfl, rfl, rfl⟩ rfl (by simp [St.emit, hst]) (by simp [St.emit, hw])
  case sigDrop a =>
    split
    · exact hevent _ ⟨by simp [St.emit], by simp [St.emit], by simp [St.emit]⟩ (by simp [St.emit]) (by simp [St.emit, hst]) (by simp [St.emit, hw])
    · exact hevent _ ⟨rfl, rfl, rfl⟩ rfl (by simp [St.emit, hst]) (by simp [St.emit, hw])
  case sigThreads a n => exact simple _ [.gc] (DQ.of_same ⟨rfl, rfl, rfl⟩) rfl (by simp [St.push, St.emit, hst]) (framesQuiet_one (by nb) trivial) rfl

end Cobweb

namespace Cobweb

theorem data_tick (p : Prog) (hh : Hist) {s s' : St} (I : Inv5 s) (h : DataInv s) (ht : tick p hh s = some s') : DataInv s' := by
  unfold tick at ht
  split at ht
  · rename_i s'' hs
    simp only [Option.some.injEq] at ht; subst ht
    unfold step at hs
    cases hst : s.stack with
    | nil => rw [hst] at hs; cases hs
    | cons f rest =>
      rw [hst] at hs
      simp only [Option.some.injEq] at hs; subst hs
      exact data_runFrame p hh I h hst
  · rename_i hnone
    split at ht
    · rename_i op _
      simp only [Option.some.injEq] at ht; subst ht
      have hst : s.stack = [] := by
        unfold step at hnone
        cases h' : s.stack with
        | nil => rfl
        | cons f rest => rw [h'] at hnone; cases hnone
      have htop := I.flag.top; rw [hst] at htop
      have h1 : DataInv ({ s with topIdx := s.topIdx + 1 } : St) :=
        ⟨h.live, h.window, h.fresh, h.dead, h.wq, h.frames⟩
      exact data_startTop (s := { s with topIdx := s.topIdx + 1 }) (fun e he => (I.ctl.fresh e he).1) h1 hst htop.2 s.topIdx op
    · cases ht

theorem data_default : DataInv ({} : St) := by
  refine ⟨?_, ?_, ?_, ?_, ?_, ?_⟩
  · intro d x _ hd; cases hd
  · intro pre g post d x hsplit; cases pre <;> cases hsplit
  · intro d _; exact ⟨rfl, fun g hg => by cases hg⟩
  · intro d _; rfl
  · intro c hc; cases hc
  · intro f hf; cases hf

/-- **Along every execution the counter of every live broadcast / entity-event data entity equals the number of its
    unfinished readers.** -/
theorem data_reach (p : Prog) (hh : Hist) {s : St} (hr : Reach p hh ({} : St) s) : Inv5 s ∧ DataInv s := by
  induction hr with
  | refl => exact ⟨inv5_default, data_default⟩
  | tick _ ht ih => exact ⟨inv5_tick p hh ih.1 ht, data_tick p hh ih.1 ih.2 ht⟩

end Cobweb
