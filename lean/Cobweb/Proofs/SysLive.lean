/-
  Cobweb.Proofs.SysLive — system-event data always has a reader still to come (C05, system events).

  A system event's payload lives on a data entity that the *reader's clean-up* despawns. Along every execution, every
  system-event data entity has a reader that has not finished: the queued `sysEvent` command, its prepared entry in the
  system-event tracker, or the run that is reading right now. Consequently no system-event data is left at quiescence
  (no leak), and data is only removed by a reader's clean-up or by the death of its entity.

  Two structural facts carry the proof: (1) in every pending command list a system-event `spawnData` is immediately followed
  by its `sysEvent` command (`pairs`; that is how `send_system_event` queues them), so when the data appears its reader
  is queued right behind it; (2) `setup` starts from an idle tracker (`FlagInv`), so starting a reader never overwrites
  another one.
-/
import Cobweb.Proofs.DataCount
import Cobweb.Proofs.Watch

namespace Cobweb

/-- A system-event spawn is immediately followed by the command that delivers the event. -/
def pairs : List Cmd → Prop
  | [] => True
  | .spawnData d x :: cs => (x.kind = .sys → ∃ sys rest, cs = .sysEvent sys d :: rest) ∧ pairs cs
  | _ :: cs => pairs cs

theorem pairs_tail {c : Cmd} {cs : List Cmd} (h : pairs (c :: cs)) : pairs cs := by
  cases c <;> simp only [pairs] at h <;> first | exact h | exact h.2

theorem pairs_append : ∀ (a b : List Cmd), pairs a → pairs b → pairs (a ++ b) := by
  intro a
  induction a with
  | nil => intro b _ hb; exact hb
  | cons c cs ih =>
    intro b ha hb
    have ht := ih b (pairs_tail ha) hb
    cases c <;> simp only [List.cons_append, pairs] at ha ⊢ <;> first | exact ht | skip
    refine ⟨fun hk => ?_, ht⟩
    obtain ⟨sys, rest, hr⟩ := ha.1 hk
    exact ⟨sys, rest ++ b, by rw [hr]; rfl⟩

/-- Lists without system-event spawns. -/
def noSysSpawn (cs : List Cmd) : Prop := ∀ c ∈ cs, ∀ d x, c = .spawnData d x → x.kind ≠ .sys

theorem pairs_of_noSysSpawn : ∀ cs : List Cmd, noSysSpawn cs → pairs cs := by
  intro cs
  induction cs with
  | nil => intro _; trivial
  | cons c cs ih =>
    intro h
    have ht := ih (fun c' hc' => h c' (List.mem_cons_of_mem _ hc'))
    cases c <;> simp only [pairs] <;> first | exact ht | skip
    exact ⟨fun hk => absurd hk (h _ List.mem_cons_self _ _ rfl), ht⟩

theorem noSysSpawn_of_plainW {cs : List Cmd} (h : ∀ c ∈ cs, ∀ d x, c ≠ .spawnData d x) : noSysSpawn cs :=
  fun c hc d x he => absurd he (h c hc d x)

def frameCmds : Frame → List Cmd
  | .batch cs => cs
  | .bodyActs _ _ _ acc => acc
  | _ => []

/-- Every command waiting somewhere. -/
def allCmds (s : St) : List Cmd := s.wq ++ s.stack.flatMap frameCmds

/-- A reader of system-event data `d` that has not finished. -/
def hasReader (s : St) (d : Nat) : Prop :=
  (∃ sys, (sys, d) ∈ s.trkSys.prepared) ∨ (s.trkSys.reacting = true ∧ s.trkSys.cur = d) ∨ ∃ sys, Cmd.sysEvent sys d ∈ allCmds s

structure SysInv (s : St) : Prop where
  live : ∀ d x, s.data d = some x → x.kind = .sys → hasReader s d
  frames : ∀ f ∈ s.stack, pairs (frameCmds f)
  wq : pairs s.wq

/-- Sys data present afterwards was present before. -/
def SysOld (s s' : St) : Prop := ∀ d x', s'.data d = some x' → x'.kind = .sys → ∃ x, s.data d = some x ∧ x.kind = .sys

theorem SysOld.of_eq {s s' : St} (h : s'.data = s.data) : SysOld s s' := fun d x' hd hk => ⟨x', by rw [← h]; exact hd, hk⟩

theorem SysOld.trans {a b c : St} (h1 : SysOld a b) (h2 : SysOld b c) : SysOld a c := by
  intro d x hd hk
  obtain ⟨y, hy, hyk⟩ := h2 d x hd hk
  exact h1 d y hy hyk

theorem SysOld.refl (s : St) : SysOld s s := SysOld.of_eq rfl

theorem sysOld_kill (s : St) (e : Nat) : SysOld s (kill s e) := by
  intro d x hd hk
  rw [kill_data] at hd
  split at hd
  · cases hd
  · exact ⟨x, hd, hk⟩

theorem sysOld_despawn1 (s : St) (e : Nat) : SysOld s (despawn1 s e) := by
  unfold despawn1; split
  · exact sysOld_kill s e
  · exact SysOld.refl s

theorem sysOld_tryCleanupData (s : St) (d0 : Nat) : SysOld s (tryCleanupData s d0) := by
  unfold tryCleanupData
  split
  · split
    · rename_i y hy
      split
      · exact SysOld.refl s
      · rename_i hns
        dsimp only
        have h1 : SysOld s ({ s with data := upd s.data d0 (some { y with cnt := y.cnt - 1 }) } : St) := by
          intro d x hd hk
          simp only [upd] at hd
          split at hd
          · simp only [Option.some.injEq] at hd; subst hd; exact absurd hk hns
          · exact ⟨x, hd, hk⟩
        split
        · exact h1.trans (sysOld_kill _ d0)
        · exact h1
    · exact SysOld.refl s
  · exact SysOld.refl s

theorem sysOld_cleanupK (s : St) (k : Kind) : SysOld s (cleanupK s k) := by
  cases k <;> simp only [cleanupK]
  · exact SysOld.refl s
  · exact (SysOld.of_eq (s' := ({ s with trkSys := { s.trkSys with reacting := false } } : St)) rfl).trans (sysOld_despawn1 _ _)
  · exact SysOld.of_eq rfl
  · split <;> exact SysOld.of_eq (by simp)
  · exact (SysOld.of_eq (s' := ({ s with trkEnt := { s.trkEnt with reacting := false }, trkEvt := { s.trkEvt with reacting := false } } : St)) rfl).trans
      (sysOld_tryCleanupData _ _)
  · exact (SysOld.of_eq (s' := ({ s with trkEvt := { s.trkEvt with reacting := false } } : St)) rfl).trans (sysOld_tryCleanupData _ _)

theorem sysOld_observe (s : St) (w : Option Nat) : SysOld s (observe s w).2 := by
  unfold observe
  dsimp only
  refine SysOld.trans ?_ (SysOld.of_eq (bumpLocal_data _ w))
  split
  · rename_i y hy
    split
    · rename_i hc
      intro d x hd hk
      simp only [upd] at hd
      split at hd
      · rename_i hdc
        simp only [Option.some.injEq] at hd; subst hd
        refine ⟨y, ?_, hc.1⟩
        rw [hdc]
        split at hy
        · exact hy
        · cases hy
      · exact ⟨x, hd, hk⟩
    · exact SysOld.refl s
  · exact SysOld.refl s

theorem sysOld_startBody (s : St) (sys : Nat) (k : Kind) : SysOld s (startBody s sys k) := by
  intro d x hd hk
  have e : (startBody s sys k).data = (observe (preBody s sys k) (ewrOf (preBody s sys k) sys)).2.data := by
    unfold startBody; dsimp only
    rw [foldl_emit_field (fun t => t.data) (fun _ _ => rfl)]
    rfl
  rw [e] at hd
  obtain ⟨y, hy, hyk⟩ := sysOld_observe _ _ d x hd hk
  exact ⟨y, by simpa using hy, hyk⟩

end Cobweb

namespace Cobweb

/-- A reader among the tracker, the waiting commands, and some extra commands in hand. -/
def hasReaderX (s : St) (extra : List Cmd) (d : Nat) : Prop :=
  (∃ sys, (sys, d) ∈ s.trkSys.prepared) ∨ (s.trkSys.reacting = true ∧ s.trkSys.cur = d) ∨
  ∃ sys, Cmd.sysEvent sys d ∈ extra ++ allCmds s

theorem hasReaderX_nil (s : St) (d : Nat) : hasReaderX s [] d ↔ hasReader s d := by simp [hasReaderX, hasReader]

theorem allCmds_push (s : St) (fs : List Frame) : allCmds (s.push fs) = s.wq ++ (fs.flatMap frameCmds ++ s.stack.flatMap frameCmds) := by
  simp [allCmds, St.push, List.flatMap_append]

/-- Sys data afterwards existed before, and every reader before is a reader afterwards unless its data is gone. -/
theorem live_keep {s s' : St} {extra : List Cmd} (hl : ∀ d x, s.data d = some x → x.kind = .sys → hasReaderX s extra d)
    (hold : SysOld s s') (hrd : ∀ d, hasReaderX s extra d → hasReader s' d ∨ s'.data d = none) :
    ∀ d x, s'.data d = some x → x.kind = .sys → hasReader s' d := by
  intro d x hd hk
  obtain ⟨y, hy, hyk⟩ := hold d x hd hk
  rcases hrd d (hl d y hy hyk) with h | h
  · exact h
  · rw [hd] at h; cases h

/-- Tracker untouched, every waiting or in-hand `sysEvent` command still waits. -/
theorem reader_keep {s s' : St} {extra : List Cmd} (ht : s'.trkSys = s.trkSys)
    (hc : ∀ sys d, Cmd.sysEvent sys d ∈ extra ++ allCmds s → Cmd.sysEvent sys d ∈ allCmds s') :
    ∀ d, hasReaderX s extra d → hasReader s' d ∨ s'.data d = none := by
  intro d h
  left
  rcases h with ⟨sys, h⟩ | ⟨h1, h2⟩ | ⟨sys, h⟩
  · exact Or.inl ⟨sys, by rw [ht]; exact h⟩
  · exact Or.inr (Or.inl ⟨by rw [ht]; exact h1, by rw [ht]; exact h2⟩)
  · exact Or.inr (Or.inr ⟨sys, hc sys d h⟩)

theorem mem_swapRemove_of_ne {α : Type} (pre post : List α) (x y : α) (hy : y ∈ pre ++ x :: post) (hne : y ≠ x) :
    y ∈ swapRemove (pre ++ x :: post) pre.length := by
  have hp := swapRemove_perm pre x post
  rw [hp.mem_iff]
  simp only [List.mem_append, List.mem_cons] at hy ⊢
  rcases hy with h | h | h
  · exact Or.inl h
  · exact absurd h hne
  · exact Or.inr h

/-- `SystemEventAccessTracker::start` on an idle tracker keeps every reader: the claimed entry becomes the current one. -/
theorem start_keeps (t : TrkData) (sys d0 d : Nat) (hidle : t.reacting = false) (sys' : Nat) (h : (sys', d) ∈ t.prepared) :
    (∃ s2, (s2, d) ∈ (t.start sys d0).prepared) ∨ ((t.start sys d0).reacting = true ∧ (t.start sys d0).cur = d) := by
  by_cases hm : (sys, d0) ∈ t.prepared
  · obtain ⟨h1, h2, h3⟩ := TrkData.start_claims_own t sys d0 hm
    by_cases hx : (sys', d) = (sys, d0)
    · right
      simp only [Prod.mk.injEq] at hx
      exact ⟨h1, by rw [h2, hx.2]⟩
    · left
      refine ⟨sys', ?_⟩
      rw [h3]
      exact (List.mem_erase_of_ne hx).mpr h
  · rw [TrkData.start_none t sys d0 hm]
    exact Or.inl ⟨sys', h⟩

theorem setupK_trkSys_other (s : St) (k : Kind) (sys : Nat) (h : ∀ d, k ≠ .sysEv d) : (setupK s k sys).trkSys = s.trkSys := by
  cases k <;> simp only [setupK] <;> first | exact absurd rfl (h _) | rfl | (split <;> simp)

/-- `setup` keeps every reader (it starts from an idle system-event tracker). -/
theorem setupK_sysReaders {s : St} {extra : List Cmd} (k : Kind) (sys : Nat) (hidle : s.trkSys.reacting = false)
    (d : Nat) (h : hasReaderX s extra d) : hasReaderX (setupK s k sys) extra d := by
  have hcm : allCmds (setupK s k sys) = allCmds s := by simp [allCmds]
  by_cases hk : ∃ d0, k = .sysEv d0
  · obtain ⟨d0, rfl⟩ := hk
    simp only [setupK]
    rcases h with ⟨sys', h⟩ | ⟨h1, _⟩ | ⟨sys', h⟩
    · rcases start_keeps s.trkSys sys d0 d hidle sys' h with h' | h'
      · exact Or.inl h'
      · exact Or.inr (Or.inl h')
    · rw [hidle] at h1; cases h1
    · exact Or.inr (Or.inr ⟨sys', h⟩)
  · have ht := setupK_trkSys_other s k sys (fun d0 h' => hk ⟨d0, h'⟩)
    rcases h with ⟨sys', h⟩ | ⟨h1, h2⟩ | ⟨sys', h⟩
    · exact Or.inl ⟨sys', by rw [ht]; exact h⟩
    · exact Or.inr (Or.inl ⟨by rw [ht]; exact h1, by rw [ht]; exact h2⟩)
    · exact Or.inr (Or.inr ⟨sys', by rw [hcm]; exact h⟩)

theorem kill_none_of_dead (s : St) (e : Nat) (hd : DeadOK s) : (despawn1 s e).data e = none := by
  unfold despawn1
  split
  · rw [kill_data]; simp
  · rename_i h
    exact hd e (by simpa using h)

theorem cleanupK_trkSys_other (s : St) (k : Kind) (h : ∀ d, k ≠ .sysEv d) : (cleanupK s k).trkSys = s.trkSys := by
  cases k <;> simp only [cleanupK] <;> first | exact absurd rfl (h _) | rfl | (split <;> simp) | simp

/-- `cleanup` removes only the reader whose data it despawns. -/
theorem cleanupK_readers {s : St} {extra : List Cmd} (k : Kind) (hdead : DeadOK s) (d : Nat) (h : hasReaderX s extra d) :
    hasReaderX (cleanupK s k) extra d ∨ (cleanupK s k).data d = none := by
  have hcm : allCmds (cleanupK s k) = allCmds s := by simp [allCmds]
  by_cases hk : ∃ d0, k = .sysEv d0
  · obtain ⟨d0, rfl⟩ := hk
    simp only [cleanupK]
    have hcm' : allCmds (despawn1 ({ s with trkSys := { s.trkSys with reacting := false } } : St) s.trkSys.cur) = allCmds s := by
      simp [allCmds]
    rcases h with ⟨sys', h⟩ | ⟨_, h2⟩ | ⟨sys', h⟩
    · exact Or.inl (Or.inl ⟨sys', by simpa using h⟩)
    · right
      rw [← h2]
      exact kill_none_of_dead ({ s with trkSys := { s.trkSys with reacting := false } } : St) s.trkSys.cur hdead
    · exact Or.inl (Or.inr (Or.inr ⟨sys', by rw [hcm']; exact h⟩))
  · have ht := cleanupK_trkSys_other s k (fun d0 h' => hk ⟨d0, h'⟩)
    left
    rcases h with ⟨sys', h⟩ | ⟨h1, h2⟩ | ⟨sys', h⟩
    · exact Or.inl ⟨sys', by rw [ht]; exact h⟩
    · exact Or.inr (Or.inl ⟨by rw [ht]; exact h1, by rw [ht]; exact h2⟩)
    · exact Or.inr (Or.inr ⟨sys', by rw [hcm]; exact h⟩)

end Cobweb

namespace Cobweb

theorem regCmds_noSpawn (s : St) (h : Handle) (t : Trig) : ∀ c ∈ (regCmds s h t).2, ∀ d x, c ≠ .spawnData d x := by
  intro c hc d x he
  subst he
  cases t <;> simp only [regCmds, rtOfTrig, tblOfTrig] at hc <;> (try split at hc) <;> simp at hc

theorem regAll_noSpawn (s : St) (h : Handle) : ∀ (ts : List Trig), ∀ c ∈ (regAll s h ts).2, ∀ d x, c ≠ .spawnData d x := by
  intro ts
  induction ts generalizing s with
  | nil => intro c hc; cases hc
  | cons t ts ih =>
    intro c hc
    simp only [regAll, List.mem_append] at hc
    rcases hc with hc | hc
    · exact regCmds_noSpawn s h t c hc
    · exact ih _ c hc

theorem allCmds_mono {s s' : St} (hwq : s'.wq = s.wq) (fs : List Frame) (hst : s'.stack = fs ++ s.stack) :
    ∀ c, c ∈ allCmds s → c ∈ allCmds s' := by
  intro c hc
  simp only [allCmds, hwq, hst, List.flatMap_append, List.mem_append] at hc ⊢
  rcases hc with h | h
  · exact Or.inl h
  · exact Or.inr (Or.inr h)

/-- The generic case: sys data is not created, the tracker is untouched, the queue only grows. -/
theorem sys_generic {s s' : St} {c : Cmd} (hl : ∀ d x, s.data d = some x → x.kind = .sys → hasReaderX s [c] d)
    (hold : SysOld s s') (ht : s'.trkSys = s.trkSys) (hwq : s'.wq = s.wq) (fs : List Frame) (hst : s'.stack = fs ++ s.stack)
    (hnot : ∀ sys d, c ≠ .sysEvent sys d) : ∀ d x, s'.data d = some x → x.kind = .sys → hasReader s' d := by
  refine live_keep hl hold (reader_keep ht ?_)
  intro sys d h
  simp only [List.cons_append, List.nil_append, List.mem_cons] at h
  rcases h with h | h
  · exact absurd h.symm (hnot sys d)
  · exact allCmds_mono hwq fs hst _ h

macro "sgen" : tactic => `(tactic| first | rfl | (simp [St.push, St.emit, St.fresh, setTbl]; done))

theorem sysOld_fresh (s : St) : SysOld s s.fresh.2 := SysOld.of_eq rfl

/-- **Applying one command keeps every system-event data entity read.** -/
theorem sys_applyCmd (s : St) (c : Cmd) (hdead : DeadOK s)
    (hl : ∀ d x, s.data d = some x → x.kind = .sys → hasReaderX s [c] d)
    (hpair : ∀ d x, c = .spawnData d x → x.kind = .sys → ∃ sys, Cmd.sysEvent sys d ∈ allCmds s) :
    (∀ d x, (applyCmd s c).data d = some x → x.kind = .sys → hasReader (applyCmd s c) d) ∧
    ∃ fs, (applyCmd s c).stack = fs ++ s.stack ∧ ∀ f ∈ fs, pairs (frameCmds f) := by
  have gen : ∀ (s' : St) (fs : List Frame), SysOld s s' → s'.trkSys = s.trkSys → s'.wq = s.wq → s'.stack = fs ++ s.stack →
      (∀ sys d, c ≠ .sysEvent sys d) → (∀ f ∈ fs, pairs (frameCmds f)) →
      (∀ d x, s'.data d = some x → x.kind = .sys → hasReader s' d) ∧ ∃ fs, s'.stack = fs ++ s.stack ∧ ∀ f ∈ fs, pairs (frameCmds f) :=
    fun s' fs h1 h2 h3 h4 h5 h6 => ⟨sys_generic hl h1 h2 h3 fs h4 h5, fs, h4, h6⟩
  have nof : ∀ f ∈ ([] : List Frame), pairs (frameCmds f) := fun _ h => by cases h
  have one : ∀ g : Frame, frameCmds g = [] → ∀ f ∈ [g], pairs (frameCmds f) := by
    intro g hg f hf; simp only [List.mem_singleton] at hf; subst hf; rw [hg]; trivial
  have fb : ∀ cs : List Cmd, noSysSpawn cs → ∀ f ∈ [Frame.flush, Frame.batch cs], pairs (frameCmds f) := by
    intro cs h f hf
    simp only [List.mem_cons, List.not_mem_nil, or_false] at hf
    rcases hf with rfl | rfl
    · trivial
    · exact pairs_of_noSysSpawn cs h
  cases c with
  | spawnData d x =>
    simp only [applyCmd]
    split
    · refine ⟨?_, [], rfl, nof⟩
      intro d' x' hd' hk'
      simp only [upd] at hd'
      by_cases hdd : d' = d
      · subst hdd
        simp only [if_true, Option.some.injEq] at hd'
        obtain ⟨sys, hs⟩ := hpair d' x rfl (by rw [hd']; exact hk')
        exact Or.inr (Or.inr ⟨sys, by simpa [allCmds] using hs⟩)
      · simp only [hdd, if_false] at hd'
        rcases hl d' x' hd' hk' with ⟨sys, h⟩ | h | ⟨sys, h⟩
        · exact Or.inl ⟨sys, h⟩
        · exact Or.inr (Or.inl h)
        · simp only [List.cons_append, List.nil_append, List.mem_cons] at h
          rcases h with h | h
          · cases h
          · exact Or.inr (Or.inr ⟨sys, by simpa [allCmds] using h⟩)
    · exact gen _ [] (SysOld.of_eq rfl) rfl rfl rfl (fun _ _ h => by cases h) nof
  | sysEvent sys d =>
    simp only [applyCmd]
    refine ⟨?_, [.runnerStart sys (.sysEv d)], rfl, one _ rfl⟩
    intro d' x' hd' hk'
    have hd0 : s.data d' = some x' := hd'
    rcases hl d' x' hd0 hk' with ⟨sys', h⟩ | h | ⟨sys', h⟩
    · exact Or.inl ⟨sys', by simp [St.push, h]⟩
    · exact Or.inr (Or.inl h)
    · simp only [List.cons_append, List.nil_append, List.mem_cons] at h
      rcases h with h | h
      · simp only [Cmd.sysEvent.injEq] at h
        exact Or.inl ⟨sys, by simp [St.push, h.2]⟩
      · exact Or.inr (Or.inr ⟨sys', by simpa [allCmds, St.push, frameCmds] using h⟩)
  | cleanup k =>
    simp only [applyCmd]
    refine ⟨live_keep hl (sysOld_cleanupK s k) ?_, [], by simp, nof⟩
    intro d h
    rcases cleanupK_readers k hdead d h with h' | h'
    · left
      rcases h' with ⟨sys', h2⟩ | h2 | ⟨sys', h2⟩
      · exact Or.inl ⟨sys', h2⟩
      · exact Or.inr (Or.inl h2)
      · simp only [List.cons_append, List.nil_append, List.mem_cons] at h2
        rcases h2 with h2 | h2
        · cases h2
        · exact Or.inr (Or.inr ⟨sys', h2⟩)
    · exact Or.inr h'
  | marker m => exact gen _ [] (SysOld.of_eq rfl) rfl rfl rfl (fun _ _ h => by cases h) nof
  | run sys => exact gen _ [.runnerStart sys .plain] (SysOld.of_eq rfl) rfl rfl rfl (fun _ _ h => by cases h) (one _ rfl)
  | reactRes sys => exact gen _ [.runnerStart sys .plain] (SysOld.of_eq rfl) rfl rfl rfl (fun _ _ h => by cases h) (one _ rfl)
  | reactEnt src rt sys => exact gen _ [.runnerStart sys (.entReact src rt)] (SysOld.of_eq rfl) rfl rfl rfl (fun _ _ h => by cases h) (one _ rfl)
  | reactDsp src sys h => exact gen _ [.runnerStart sys (.dspReact src h)] (SysOld.of_eq rfl) rfl rfl rfl (fun _ _ h => by cases h) (one _ rfl)
  | reactEv target d sys => exact gen _ [.runnerStart sys (.entEv target d)] (SysOld.of_eq rfl) rfl rfl rfl (fun _ _ h => by cases h) (one _ rfl)
  | reactBc d sys => exact gen _ [.runnerStart sys (.bcEv d)] (SysOld.of_eq rfl) rfl rfl rfl (fun _ _ h => by cases h) (one _ rfl)
  | spawnStorage sys => simp only [applyCmd]; split <;> exact gen _ [] (SysOld.of_eq rfl) rfl rfl rfl (fun _ _ h => by cases h) nof
  | insertOnce sys => simp only [applyCmd]; split <;> exact gen _ [] (SysOld.of_eq rfl) rfl rfl rfl (fun _ _ h => by cases h) nof
  | broadcast ty pid =>
    simp only [applyCmd]
    split
    · exact gen _ [] (SysOld.of_eq rfl) rfl rfl rfl (fun _ _ h => by cases h) nof
    · refine gen _ [.flush, .batch _] (SysOld.of_eq rfl) rfl rfl rfl (fun _ _ h => by cases h) (fb _ ?_)
      intro c hc d x he
      rcases List.mem_cons.mp hc with rfl | hc
      · simp only [Cmd.spawnData.injEq] at he; rw [← he.2]; simp
      · obtain ⟨_, _, rfl⟩ := List.mem_map.mp hc; cases he
  | entityEvent e ty pid =>
    simp only [applyCmd]
    split
    · exact gen _ [] (SysOld.of_eq rfl) rfl rfl rfl (fun _ _ h => by cases h) nof
    · refine gen _ [.flush, .batch _] (SysOld.of_eq rfl) rfl rfl rfl (fun _ _ h => by cases h) (fb _ ?_)
      intro c hc d x he
      rcases List.mem_cons.mp hc with rfl | hc
      · simp only [Cmd.spawnData.injEq] at he; rw [← he.2]; simp
      · rcases List.mem_append.mp hc with hc | hc <;> (obtain ⟨_, _, rfl⟩ := List.mem_map.mp hc; cases he)
  | resMut ty =>
    refine gen _ [.flush, .batch _] (SysOld.of_eq rfl) rfl rfl rfl (fun _ _ h => by cases h) (fb _ ?_)
    intro c hc d x he
    obtain ⟨_, _, rfl⟩ := List.mem_map.mp hc; cases he
  | tryInsert e ty v => simp only [applyCmd]; split <;> exact gen _ [] (SysOld.of_eq rfl) rfl rfl rfl (fun _ _ h => by cases h) nof
  | insReact e ty =>
    simp only [applyCmd]
    split
    · exact gen _ [] (SysOld.of_eq rfl) rfl rfl rfl (fun _ _ h => by cases h) nof
    · refine gen _ [.flush, .batch _] (SysOld.of_eq rfl) rfl rfl rfl (fun _ _ h => by cases h) (fb _ ?_)
      intro c hc d x he
      rcases List.mem_append.mp hc with hc | hc <;> (obtain ⟨_, _, rfl⟩ := List.mem_map.mp hc; cases he)
  | mutReact e ty =>
    simp only [applyCmd]
    refine gen _ [.flush, .batch _] (SysOld.of_eq rfl) rfl rfl rfl (fun _ _ h => by cases h) (fb _ ?_)
    intro c hc d x he
    rcases List.mem_append.mp hc with hc | hc <;> (obtain ⟨_, _, rfl⟩ := List.mem_map.mp hc; cases he)
  | register trigs sys mode =>
    simp only [applyCmd]
    cases mode <;> dsimp only
    · exact gen _ [.flush, .batch (regAll s ⟨sys, none⟩ trigs).2] (SysOld.of_eq (by simp [St.push])) (by simp [St.push]) (by simp [St.push])
        (by simp [St.push]) (fun _ _ h => by cases h) (fb _ (noSysSpawn_of_plainW (regAll_noSpawn _ _ trigs)))
    all_goals
      exact gen _ [.flush, .batch (regAll (newArc s sys).2 ⟨sys, some (newArc s sys).1⟩ trigs).2] (SysOld.of_eq (by simp [St.push]))
        (by simp [St.push]) (by simp [St.push]) (by simp [St.push]) (fun _ _ h => by cases h)
        (fb _ (noSysSpawn_of_plainW (regAll_noSpawn _ _ trigs)))
  | regType t ty h => simp only [applyCmd]; split <;> exact gen _ [] (SysOld.of_eq rfl) rfl rfl rfl (fun _ _ h => by cases h) nof
  | regEnt rt e h =>
    simp only [applyCmd]
    split
    · exact gen _ [] (SysOld.of_eq rfl) rfl rfl rfl (fun _ _ h => by cases h) nof
    · split
      · exact gen _ [] (SysOld.of_eq rfl) rfl rfl rfl (fun _ _ h => by cases h) nof
      · exact gen _ [] (SysOld.of_eq (by simp)) (by simp) (by simp) (by simp) (fun _ _ h => by cases h) nof
  | regDsp e h =>
    simp only [applyCmd]
    split
    · exact gen _ [] (SysOld.of_eq rfl) rfl rfl rfl (fun _ _ h => by cases h) nof
    · exact gen _ [] (SysOld.of_eq (by simp)) (by simp) (by simp) (by simp) (fun _ _ h => by cases h) nof
  | trackRemovals ty => simp only [applyCmd]; split <;> exact gen _ [] (SysOld.of_eq rfl) rfl rfl rfl (fun _ _ h => by cases h) nof
  | revoke sys trigs => exact gen _ [] (SysOld.of_eq (by simp [applyCmd])) (by simp [applyCmd]) (by simp [applyCmd]) (by simp [applyCmd]) (fun _ _ h => by cases h) nof
  | despawn e =>
    exact gen _ [] (by simp only [applyCmd]; exact sysOld_despawn1 s e) (by simp [applyCmd]) (by simp [applyCmd]) (by simp [applyCmd])
      (fun _ _ h => by cases h) nof
  | despawnRec e => exact gen _ [.despawnWork [(e, false)]] (SysOld.of_eq rfl) rfl rfl rfl (fun _ _ h => by cases h) (one _ rfl)
  | removeComp e ty => simp only [applyCmd]; split <;> exact gen _ [] (SysOld.of_eq rfl) rfl rfl rfl (fun _ _ h => by cases h) nof
  | ewrInsertLocal e wr v => simp only [applyCmd]; split <;> exact gen _ [] (SysOld.of_eq rfl) rfl rfl rfl (fun _ _ h => by cases h) nof
  | ewrCleanupData sys e wr =>
    simp only [applyCmd]; split <;> (try split) <;> exact gen _ [] (SysOld.of_eq rfl) rfl rfl rfl (fun _ _ h => by cases h) nof
  | ewrAdd e wr v sys =>
    simp only [applyCmd]
    split
    · refine gen _ [.flush, .batch _] (SysOld.of_eq rfl) rfl rfl rfl (fun _ _ h => by cases h) (fb _ ?_)
      intro c hc d x he
      simp at hc
      rcases hc with rfl | rfl <;> cases he
    · exact gen _ [] (SysOld.of_eq rfl) rfl rfl rfl (fun _ _ h => by cases h) nof

end Cobweb

namespace Cobweb

theorem pairs_enqueue (s : St) (a : Act) : pairs (enqueue s a).2 := by
  cases a <;> simp only [enqueue] <;> (repeat' split) <;>
    first
    | trivial
    | (refine ⟨fun _ => ⟨_, _, rfl⟩, ?_⟩; trivial)
    | (apply pairs_of_noSysSpawn; intro c hc d x he; subst he; simp at hc; done)
    | (apply pairs_of_noSysSpawn; intro c hc d x he; subst he; simp at hc)

theorem pollRem_noSpawn (s : St) : ∀ c ∈ (pollRemovals s).2, ∀ d x, c ≠ .spawnData d x := by
  unfold pollRemovals
  suffices h : ∀ (tys : List Nat) (acc : St × List Cmd), (∀ c ∈ acc.2, ∀ d x, c ≠ Cmd.spawnData d x) →
      ∀ c ∈ (tys.foldl pollRemStep acc).2, ∀ d x, c ≠ Cmd.spawnData d x from h _ _ (by simp)
  intro tys
  induction tys with
  | nil => intro acc h; exact h
  | cons ty tys ih =>
    intro acc h
    rw [List.foldl_cons]
    apply ih
    intro c hc
    simp only [pollRemStep, List.mem_append, List.mem_flatMap] at hc
    rcases hc with hc | ⟨e, _, hc⟩
    · exact h c hc
    · simp only [removalCmdsFor, List.mem_append, List.mem_map] at hc
      rcases hc with ⟨_, _, rfl⟩ | ⟨_, _, rfl⟩ <;> (intro d x he; cases he)

theorem pollDsp_noSpawn (s : St) : ∀ c ∈ (pollDespawns s).2, ∀ d x, c ≠ .spawnData d x := by
  unfold pollDespawns
  suffices h : ∀ (es : List Nat) (acc : St × List Cmd), (∀ c ∈ acc.2, ∀ d x, c ≠ Cmd.spawnData d x) →
      ∀ c ∈ (es.foldl pollDspStep acc).2, ∀ d x, c ≠ Cmd.spawnData d x from h _ _ (by simp)
  intro es
  induction es with
  | nil => intro acc h; exact h
  | cons e es ih =>
    intro acc h
    rw [List.foldl_cons]
    apply ih
    intro c hc
    simp only [pollDspStep, List.mem_append, List.mem_map] at hc
    rcases hc with hc | ⟨_, _, rfl⟩
    · exact h c hc
    · intro d x he; cases he

theorem frames_ok {s s' : St} (hfr : ∀ g ∈ s.stack, pairs (frameCmds g)) (fs : List Frame) (hst : s'.stack = fs ++ s.stack)
    (hfs : ∀ g ∈ fs, pairs (frameCmds g)) : ∀ g ∈ s'.stack, pairs (frameCmds g) := by
  intro g hg
  rw [hst] at hg
  rcases List.mem_append.mp hg with h | h
  · exact hfs g h
  · exact hfr g h

theorem deadOK_of_same {s s' : St} (hd : DeadOK s) (h1 : s'.data = s.data) (h2 : s'.alive = s.alive) : DeadOK s' :=
  fun d ha => by rw [h1]; exact hd d (by rw [← h2]; exact ha)

/-- **Every frame keeps every system-event data entity read** (stated for the popped state `s`). -/
theorem sys_runFrame' (p : Prog) (hh : Hist) (s : St) (f : Frame)
    (hl : ∀ d x, s.data d = some x → x.kind = .sys → hasReaderX s (frameCmds f) d)
    (hfr : ∀ g ∈ s.stack, pairs (frameCmds g)) (hf : pairs (frameCmds f)) (hwq : pairs s.wq) (hdead : DeadOK s)
    (hidle : ((∃ sys k idx, f = .runnerLookup sys k idx) ∨ (∃ sys k, f = .abort sys k)) → s.trkSys.reacting = false) :
    SysInv (runFrame p hh s f) := by
  -- frames that carry no commands
  have nocmd : ∀ fs : List Frame, (∀ g ∈ fs, frameCmds g = []) → ∀ g ∈ fs, pairs (frameCmds g) :=
    fun fs h g hg => by rw [h g hg]; trivial
  -- tracker untouched, sys data not created, commands only moved: the typical frame
  have typical : ∀ (s' : St) (fs : List Frame), SysOld s s' → s'.trkSys = s.trkSys →
      (∀ c, c ∈ frameCmds f ++ allCmds s → c ∈ allCmds s') → s'.stack = fs ++ s.stack → (∀ g ∈ fs, pairs (frameCmds g)) → pairs s'.wq →
      SysInv s' :=
    fun s' fs hold ht hc hst hfs hwq' =>
      ⟨live_keep hl hold (reader_keep ht (fun sys d h => hc _ h)), frames_ok hfr fs hst hfs, hwq'⟩
  cases f with
  | batch cs =>
    cases cs with
    | nil =>
      simp only [runFrame, doBatch]
      exact typical _ [] (SysOld.refl s) rfl (fun c hc => by simpa [frameCmds] using hc) rfl (nocmd _ (by simp)) hwq
    | cons c cs =>
      simp only [runFrame, doBatch]
      have hd1 : DeadOK (s.push [.flush, .batch cs]) := deadOK_of_same hdead rfl rfl
      have hl1 : ∀ d x, (s.push [.flush, .batch cs]).data d = some x → x.kind = .sys → hasReaderX (s.push [.flush, .batch cs]) [c] d := by
        intro d x hd hk
        rcases hl d x hd hk with h | h | ⟨sys, h⟩
        · exact Or.inl h
        · exact Or.inr (Or.inl h)
        · refine Or.inr (Or.inr ⟨sys, ?_⟩)
          rw [allCmds_push]
          simp only [frameCmds, allCmds, List.mem_append, List.mem_cons, List.flatMap_cons, List.flatMap_nil, List.append_nil,
            List.nil_append, List.mem_singleton] at h ⊢
          rcases h with (h | h) | h | h <;> simp [h]
      have hp1 : ∀ d x, c = .spawnData d x → x.kind = .sys → ∃ sys, Cmd.sysEvent sys d ∈ allCmds (s.push [.flush, .batch cs]) := by
        intro d x hc hk
        subst hc
        simp only [frameCmds, pairs] at hf
        obtain ⟨sys, rest, hr⟩ := hf.1 hk
        exact ⟨sys, by simp [allCmds, St.push, frameCmds, hr]⟩
      obtain ⟨hlive, fs, hst, hfs⟩ := sys_applyCmd (s.push [.flush, .batch cs]) c hd1 hl1 hp1
      refine ⟨hlive, ?_, by rw [applyCmd_wq]; exact hwq⟩
      intro g hg
      rw [hst] at hg
      rcases List.mem_append.mp hg with h | h
      · exact hfs g h
      · simp only [St.push, List.cons_append, List.nil_append, List.mem_cons] at h
        rcases h with rfl | rfl | h
        · trivial
        · exact pairs_tail hf
        · exact hfr g h
  | flush =>
    simp only [runFrame, doFlush]
    split
    · exact typical _ [] (SysOld.refl s) rfl (fun c hc => by simpa [frameCmds] using hc) rfl (nocmd _ (by simp)) hwq
    · refine typical _ [.batch s.wq] (SysOld.of_eq rfl) rfl ?_ rfl (by intro g hg; simp at hg; subst hg; exact hwq) trivial
      intro c hc
      simp only [frameCmds, allCmds, List.nil_append, List.mem_append] at hc
      simp only [allCmds, St.push, List.nil_append, List.cons_append, List.flatMap_cons, frameCmds, List.mem_append]
      rcases hc with h | h
      · exact Or.inl h
      · exact Or.inr h
  | bodyActs sys k i acc =>
    simp only [runFrame, doBodyActs]
    split
    · refine typical _ [.cleanup k, .flush, .batch acc] (SysOld.of_eq rfl) rfl ?_ rfl ?_ hwq
      · intro c hc
        simp only [frameCmds, allCmds, List.mem_append] at hc
        simp only [allCmds, St.push, St.emit, List.cons_append, List.nil_append, List.flatMap_cons, frameCmds, List.mem_append]
        rcases hc with h | h | h
        · exact Or.inr (Or.inl h)
        · exact Or.inl h
        · exact Or.inr (Or.inr h)
      · intro g hg
        simp only [List.mem_cons, List.not_mem_nil, or_false] at hg
        rcases hg with rfl | rfl | rfl
        · trivial
        · trivial
        · exact hf
    · rename_i a _
      refine typical _ [.bodyActs sys k (i + 1) (acc ++ (enqueue s a).2)] (SysOld.of_eq (by simp [St.push])) (by simp [St.push]) ?_
        (by simp [St.push]) ?_ (by simp [St.push]; exact hwq)
      · intro c hc
        simp only [frameCmds, allCmds, List.mem_append] at hc
        simp only [allCmds, St.push, List.cons_append, List.nil_append, List.flatMap_cons, frameCmds, List.mem_append, enqueue_wq,
          enqueue_stack]
        rcases hc with h | h | h
        · exact Or.inr (Or.inl (Or.inl h))
        · exact Or.inl h
        · exact Or.inr (Or.inr h)
      · intro g hg
        simp only [List.mem_cons, List.not_mem_nil, or_false] at hg
        subst hg
        exact pairs_append _ _ hf (pairs_enqueue s a)
  | exclActs sys i =>
    simp only [runFrame, doExclActs]
    split
    · exact typical _ [.flush] (SysOld.of_eq rfl) rfl (fun c hc => by simpa [frameCmds, allCmds, St.push, St.emit] using hc) rfl
        (nocmd _ (by simp [frameCmds])) hwq
    · rename_i t _
      exact typical _ [.runnerStart t .plain, .exclActs sys (i + 1)] (SysOld.of_eq rfl) rfl
        (fun c hc => by simpa [frameCmds, allCmds, St.push] using hc) rfl
        (nocmd _ (by intro g hg; simp at hg; rcases hg with rfl | rfl <;> simp [frameCmds])) hwq
    · rename_i a _ _
      split
      · refine typical _ [.flush, .exclActs sys (i + 1)] (SysOld.of_eq (by simp [St.push])) (by simp [St.push]) ?_ (by simp [St.push])
          (nocmd _ (by intro g hg; simp at hg; rcases hg with rfl | rfl <;> simp [frameCmds])) (by simp [St.push]; exact pairs_append _ _ hwq (pairs_enqueue s a))
        intro c hc
        simp only [frameCmds, allCmds, List.nil_append, List.mem_append] at hc
        simp only [allCmds, St.push, List.cons_append, List.nil_append, List.flatMap_cons, frameCmds, List.mem_append, enqueue_wq,
          enqueue_stack]
        rcases hc with h | h
        · exact Or.inl (Or.inl h)
        · exact Or.inr h
      · refine typical _ [.exclActs sys (i + 1)] (SysOld.of_eq (by simp [St.push])) (by simp [St.push]) ?_ (by simp [St.push])
          (nocmd _ (by simp [frameCmds])) (by simp [St.push]; exact pairs_append _ _ hwq (pairs_enqueue s a))
        intro c hc
        simp only [frameCmds, allCmds, List.nil_append, List.mem_append] at hc
        simp only [allCmds, St.push, List.cons_append, List.nil_append, List.flatMap_cons, frameCmds, List.mem_append, enqueue_wq,
          enqueue_stack]
        rcases hc with h | h
        · exact Or.inl (Or.inl h)
        · exact Or.inr h
  | topActs t i =>
    simp only [runFrame, doTopActs]
    split
    · exact typical _ [.flush] (SysOld.of_eq rfl) rfl (fun c hc => by simpa [frameCmds, allCmds, St.push] using hc) rfl
        (nocmd _ (by simp [frameCmds])) hwq
    · rename_i a _
      refine typical _ [.topActs t (i + 1)] (SysOld.of_eq (by simp [St.push])) (by simp [St.push]) ?_ (by simp [St.push])
        (nocmd _ (by simp [frameCmds])) (by simp [St.push]; exact pairs_append _ _ hwq (pairs_enqueue s a))
      intro c hc
      simp only [frameCmds, allCmds, List.nil_append, List.mem_append] at hc
      simp only [allCmds, St.push, List.cons_append, List.nil_append, List.flatMap_cons, frameCmds, List.mem_append, enqueue_wq,
        enqueue_stack]
      rcases hc with h | h
      · exact Or.inl (Or.inl h)
      · exact Or.inr h
  | cleanup k =>
    simp only [runFrame]
    refine ⟨live_keep hl (sysOld_cleanupK s k) ?_, by simpa using hfr, by simpa using hwq⟩
    intro d h
    rcases cleanupK_readers k hdead d h with h' | h'
    · exact Or.inl (by simpa [hasReaderX, hasReader, frameCmds] using h')
    · exact Or.inr h'
  | onceTail sys =>
    simp only [runFrame, doOnceTail]
    refine typical _ [.flush, .dropCallback sys] ((sysOld_despawn1 s sys).trans (SysOld.of_eq rfl)) (by simp [St.push]) ?_ (by simp [St.push])
      (nocmd _ (by simp [frameCmds])) (by simp [St.push]; exact pairs_append _ _ hwq (by simp [pairs]))
    intro c hc
    simp only [frameCmds, allCmds, List.nil_append, List.mem_append] at hc
    simp only [allCmds, St.push, List.cons_append, List.nil_append, List.flatMap_cons, frameCmds, List.mem_append, despawn1_wq,
      despawn1_stack]
    rcases hc with h | h
    · exact Or.inl (Or.inl h)
    · exact Or.inr h
  | dropCallback sys =>
    exact typical _ [] (SysOld.of_eq rfl) rfl (fun c hc => by simpa [frameCmds, allCmds, runFrame, St.emit] using hc) rfl (nocmd _ (by simp)) hwq
  | runnerStart sys k =>
    exact typical _ [.gc, .poll, .runnerLookup sys k s.counter] (SysOld.of_eq rfl) rfl
      (fun c hc => by simpa [frameCmds, allCmds, runFrame, doRunnerStart, St.emit, St.push] using hc) rfl (nocmd _ (by simp [frameCmds])) hwq
  | runnerLookup sys k idx =>
    have hid : s.trkSys.reacting = false := hidle (Or.inl ⟨sys, k, idx, rfl⟩)
    simp only [runFrame, doRunnerLookup]
    have habort : ∀ ev : Ev, SysInv ((s.emit ev).push (abortFrames sys k)) :=
      fun ev => typical _ (abortFrames sys k) (SysOld.of_eq rfl) rfl
        (fun c hc => by simpa [frameCmds, allCmds, St.emit, St.push, abortFrames] using hc) rfl (nocmd _ (by simp [abortFrames, frameCmds])) hwq
    split
    · exact habort _
    · split
      · exact habort _
      · split
        · exact habort _
        · exact typical _ [] (SysOld.of_eq rfl) rfl (fun c hc => by simpa [frameCmds, allCmds, St.emit] using hc) rfl (nocmd _ (by simp)) hwq
      · -- the run: `setup` (from an idle tracker) keeps every reader; the body's first statement may take the payload
        have hl1 : ∀ d x, ({ s with storage := upd s.storage sys (some false), counter := s.counter + 1 } : St).data d = some x →
            x.kind = .sys → hasReaderX ({ s with storage := upd s.storage sys (some false), counter := s.counter + 1 } : St) [] d := by
          intro d x hd hk
          have := hl d x hd hk
          simpa [hasReaderX, frameCmds, allCmds] using this
        have hsr : ∀ d, hasReaderX ({ s with storage := upd s.storage sys (some false), counter := s.counter + 1 } : St) [] d →
            hasReaderX (setupK ({ s with storage := upd s.storage sys (some false), counter := s.counter + 1 } : St) k sys) [] d :=
          fun d h => setupK_sysReaders (s := ({ s with storage := upd s.storage sys (some false), counter := s.counter + 1 } : St)) k sys hid d h
        -- any state that agrees with `setupK ..` on the tracker and the queues
        have fin : ∀ (s' : St) (fs : List Frame), SysOld ({ s with storage := upd s.storage sys (some false), counter := s.counter + 1 } : St) s' →
            s'.trkSys = (setupK ({ s with storage := upd s.storage sys (some false), counter := s.counter + 1 } : St) k sys).trkSys →
            (∀ c, c ∈ allCmds s → c ∈ allCmds s') → s'.stack = fs ++ s.stack → (∀ g ∈ fs, pairs (frameCmds g)) → pairs s'.wq → SysInv s' := by
          intro s' fs hold ht hc hst hfs hwq'
          refine ⟨live_keep hl1 hold ?_, frames_ok hfr fs hst hfs, hwq'⟩
          intro d h
          left
          rcases hsr d h with ⟨sys', h'⟩ | ⟨h1, h2⟩ | ⟨sys', h'⟩
          · exact Or.inl ⟨sys', by rw [ht]; exact h'⟩
          · exact Or.inr (Or.inl ⟨by rw [ht]; exact h1, by rw [ht]; exact h2⟩)
          · refine Or.inr (Or.inr ⟨sys', hc _ ?_⟩)
            simpa [allCmds] using h'
        have htb : (startBody ({ s with storage := upd s.storage sys (some false), counter := s.counter + 1 } : St) sys k).trkSys =
            (setupK ({ s with storage := upd s.storage sys (some false), counter := s.counter + 1 } : St) k sys).trkSys :=
          wstartBody_proj (fun t => t.trkSys) (fun _ _ => rfl) (fun t w => by simp) (fun _ _ => rfl) _ sys k
        split
        · exact fin _ [.afterBody sys idx] (SysOld.of_eq (by simp [St.push, St.emit])) (by simp [St.push, St.emit])
            (fun c hc => by simpa [allCmds, St.push, St.emit, frameCmds] using hc) (by simp [St.push, St.emit]) (nocmd _ (by simp [frameCmds]))
            (by simp [St.push, St.emit]; exact hwq)
        · split
          · exact fin _ [.bodyActs sys k 0 [], .onceTail sys, .afterBody sys idx] ((sysOld_startBody _ sys k).trans (SysOld.of_eq rfl))
              (by simp [St.push, htb]) (fun c hc => by simpa [allCmds, St.push, frameCmds] using hc) (by simp [St.push])
              (nocmd _ (by simp [frameCmds])) (by simp [St.push]; exact hwq)
          · split
            · refine fin _ [.exclActs sys 0, .afterBody sys idx] ((sysOld_startBody _ sys k).trans (SysOld.of_eq rfl))
                (by simp [St.push, htb]) ?_ (by simp [St.push]) (nocmd _ (by simp [frameCmds]))
                (by simp [St.push]; exact pairs_append _ _ hwq (by simp [pairs]))
              intro c hc
              simp only [allCmds, List.mem_append] at hc
              simp only [allCmds, St.push, List.cons_append, List.nil_append, List.flatMap_cons, frameCmds, List.mem_append,
                startBody_wq, startBody_stack]
              rcases hc with h | h
              · exact Or.inl (Or.inl h)
              · exact Or.inr h
            · exact fin _ [.bodyActs sys k 0 [], .afterBody sys idx] ((sysOld_startBody _ sys k).trans (SysOld.of_eq rfl))
                (by simp [St.push, htb]) (fun c hc => by simpa [allCmds, St.push, frameCmds] using hc) (by simp [St.push])
                (nocmd _ (by simp [frameCmds])) (by simp [St.push]; exact hwq)
  | afterBody sys idx =>
    exact typical _ [.gc, .reinsert sys idx] (SysOld.of_eq rfl) rfl
      (fun c hc => by simpa [frameCmds, allCmds, runFrame, doAfterBody, St.emit, St.push] using hc) rfl (nocmd _ (by simp [frameCmds])) hwq
  | reinsert sys idx =>
    simp only [runFrame, doReinsert]
    split
    · exact typical _ [.poll, .replayTake sys idx] (SysOld.of_eq rfl) rfl (fun c hc => by simpa [frameCmds, allCmds, St.emit, St.push] using hc) rfl
        (nocmd _ (by simp [frameCmds])) hwq
    · split <;> exact typical _ [.despawnWork [(sys, false)], .gc, .poll, .replayTake sys idx] (SysOld.of_eq rfl) rfl
        (fun c hc => by simpa [frameCmds, allCmds, St.emit, St.push] using hc) rfl (nocmd _ (by simp [frameCmds])) hwq
    · split <;> exact typical _ [.gc, .poll, .replayTake sys idx] (SysOld.of_eq rfl) rfl
        (fun c hc => by simpa [frameCmds, allCmds, St.emit, St.push] using hc) rfl (nocmd _ (by simp [frameCmds])) hwq
  | replayTake sys idx =>
    exact typical _ [.replayLoop sys s.buffered [] idx] (SysOld.of_eq rfl) rfl
      (fun c hc => by simpa [frameCmds, allCmds, runFrame, doReplayTake, St.push] using hc) rfl (nocmd _ (by simp [frameCmds])) hwq
  | replayLoop sys r kept idx =>
    simp only [runFrame, doReplayLoop]
    split
    · exact typical _ [.finish sys idx] (SysOld.of_eq rfl) rfl (fun c hc => by simpa [frameCmds, allCmds, St.push] using hc) rfl
        (nocmd _ (by simp [frameCmds])) hwq
    · split
      · exact typical _ [.runnerStart _ _, .replayLoop sys _ kept idx] (SysOld.of_eq rfl) rfl
          (fun c hc => by simpa [frameCmds, allCmds, St.emit, St.push] using hc) rfl (nocmd _ (by simp [frameCmds])) hwq
      · exact typical _ [.replayLoop sys _ _ idx] (SysOld.of_eq rfl) rfl (fun c hc => by simpa [frameCmds, allCmds, St.push] using hc) rfl
          (nocmd _ (by simp [frameCmds])) hwq
  | finish sys idx =>
    simp only [runFrame, doFinish]
    split
    · split
      · exact typical _ [] (SysOld.of_eq rfl) rfl (fun c hc => by simpa [frameCmds, allCmds, St.emit] using hc) rfl (nocmd _ (by simp)) hwq
      · rename_i b bs _
        exact typical _ (abortFrames b.1 b.2 ++ [Frame.finish sys idx]) (SysOld.of_eq rfl) rfl
          (fun c hc => by simpa [frameCmds, allCmds, St.emit, St.push, abortFrames] using hc) (by simp [St.push, St.emit])
          (nocmd _ (by simp [abortFrames, frameCmds])) hwq
    · exact typical _ [] (SysOld.of_eq rfl) rfl (fun c hc => by simpa [frameCmds, allCmds, St.emit] using hc) rfl (nocmd _ (by simp)) hwq
  | abort sys k =>
    have hid : s.trkSys.reacting = false := hidle (Or.inr ⟨sys, k, rfl⟩)
    simp only [runFrame]
    have hl1 : ∀ d x, s.data d = some x → x.kind = .sys → hasReaderX s [] d := by
      intro d x hd hk; simpa [hasReaderX, frameCmds] using hl d x hd hk
    have hd2 : DeadOK (setupK s k sys) := deadOK_of_same hdead (by simp) (by simp)
    refine ⟨live_keep hl1 ((SysOld.of_eq (by simp)).trans (sysOld_cleanupK _ k)) ?_, by simpa using hfr, by simpa using hwq⟩
    intro d h
    rcases cleanupK_readers k hd2 d (setupK_sysReaders k sys hid d h) with h' | h'
    · exact Or.inl (by simpa [hasReaderX, hasReader] using h')
    · exact Or.inr h'
  | gc =>
    simp only [runFrame, doGc]
    split
    · exact typical _ [] (SysOld.refl s) rfl (fun c hc => by simpa [frameCmds] using hc) rfl (nocmd _ (by simp)) hwq
    · exact typical _ [.despawnWork _, .gc] (SysOld.of_eq rfl) rfl (fun c hc => by simpa [frameCmds, allCmds, St.push] using hc) rfl
        (nocmd _ (by simp [frameCmds])) hwq
  | despawnWork work =>
    simp only [runFrame, doDespawnWork]
    split
    · exact typical _ [] (SysOld.refl s) rfl (fun c hc => by simpa [frameCmds] using hc) rfl (nocmd _ (by simp)) hwq
    · split
      · rename_i e ex work _
        split
        · exact typical _ [.despawnWork work] ((sysOld_despawn1 s e).trans (SysOld.of_eq rfl)) (by simp [St.push])
            (fun c hc => by simpa [frameCmds, allCmds, St.push] using hc) (by simp [St.push]) (nocmd _ (by simp [frameCmds]))
            (by simp [St.push]; exact hwq)
        · exact typical _ [.flush, .despawnWork _] (SysOld.of_eq rfl) rfl (fun c hc => by simpa [frameCmds, allCmds, St.push] using hc) rfl
            (nocmd _ (by simp [frameCmds])) hwq
      · split
        · exact typical _ [.despawnWork _] (SysOld.of_eq rfl) rfl (fun c hc => by simpa [frameCmds, allCmds, St.push] using hc) rfl
            (nocmd _ (by simp [frameCmds])) hwq
        · exact typical _ [.despawnWork _] (SysOld.of_eq rfl) rfl (fun c hc => by simpa [frameCmds, allCmds, St.push] using hc) rfl
            (nocmd _ (by simp [frameCmds])) hwq
  | poll =>
    simp only [runFrame, doPoll]
    refine typical _ [.flush] (SysOld.of_eq (by simp [St.push])) (by simp [St.push]) ?_ (by simp [St.push]) (nocmd _ (by simp [frameCmds])) ?_
    · intro c hc
      simp only [frameCmds, allCmds, List.nil_append, List.mem_append] at hc
      simp only [allCmds, St.push, List.cons_append, List.nil_append, List.flatMap_cons, frameCmds, List.mem_append,
        pollDespawns_wq, pollRemovals_wq, pollDespawns_stack, pollRemovals_stack]
      rcases hc with h | h
      · exact Or.inl (Or.inl (Or.inl h))
      · exact Or.inr h
    · simp only [St.push, pollDespawns_wq, pollRemovals_wq]
      exact pairs_append _ _ (pairs_append _ _ hwq (pairs_of_noSysSpawn _ (noSysSpawn_of_plainW (pollRem_noSpawn s))))
        (pairs_of_noSysSpawn _ (noSysSpawn_of_plainW (pollDsp_noSpawn _)))

end Cobweb

namespace Cobweb

theorem sys_startTop {s : St} (hst : s.stack = []) (h : SysInv s) (hdead : DeadOK s) (t : Nat) (op : TopOp) : SysInv (startTop s t op) := by
  have hl0 : ∀ d x, s.data d = some x → x.kind = .sys → hasReaderX s [] d := fun d x hd hk => (hasReaderX_nil s d).mpr (h.live d x hd hk)
  have nocmd : ∀ fs : List Frame, (∀ g ∈ fs, frameCmds g = []) → ∀ g ∈ fs, pairs (frameCmds g) :=
    fun fs hh g hg => by rw [hh g hg]; trivial
  have typical : ∀ (s' : St) (fs : List Frame), SysOld s s' → s'.trkSys = s.trkSys →
      (∀ c, c ∈ allCmds s → c ∈ allCmds s') → s'.stack = fs ++ s.stack → (∀ g ∈ fs, pairs (frameCmds g)) → pairs s'.wq → SysInv s' :=
    fun s' fs hold ht hc hst' hfs hwq' =>
      ⟨live_keep hl0 hold (reader_keep ht (fun sys d hh => hc _ (by simpa using hh))), frames_ok h.frames fs hst' hfs, hwq'⟩
  have viaCmd : ∀ (s1 : St) (c : Cmd), s1.data = s.data → s1.alive = s.alive → s1.trkSys = s.trkSys → s1.wq = s.wq → s1.stack = s.stack →
      (∀ sys d, c ≠ .sysEvent sys d) → (∀ d x, c ≠ .spawnData d x) → SysInv (applyCmd s1 c) := by
    intro s1 c e1 e2 e3 e4 e5 hne hns
    have hc1 : allCmds s1 = allCmds s := by simp [allCmds, e4, e5]
    have hl1 : ∀ d x, s1.data d = some x → x.kind = .sys → hasReaderX s1 [c] d := by
      intro d x hd hk
      rcases h.live d x (by rw [← e1]; exact hd) hk with ⟨sys, hh⟩ | hh | ⟨sys, hh⟩
      · exact Or.inl ⟨sys, by rw [e3]; exact hh⟩
      · exact Or.inr (Or.inl (by rw [e3]; exact hh))
      · exact Or.inr (Or.inr ⟨sys, by rw [hc1]; simp [hh]⟩)
    obtain ⟨hlive, fs, hst', hfs⟩ := sys_applyCmd s1 c (deadOK_of_same hdead e1 e2) hl1 (fun d x hc => absurd hc (hns d x))
    exact ⟨hlive, frames_ok (by rw [e5]; exact h.frames) fs hst' hfs, by rw [applyCmd_wq, e4]; exact h.wq⟩
  unfold startTop
  cases op <;> dsimp only
  case acts =>
    exact typical _ [.topActs t 0] (SysOld.of_eq rfl) rfl (fun c hc => by simpa [allCmds, St.push, St.emit, frameCmds] using hc)
      (by simp [St.push, St.emit]) (nocmd _ (by simp [frameCmds])) h.wq
  case wDespawn e =>
    exact typical _ [] ((SysOld.of_eq (s' := s.emit (.top t)) rfl).trans (sysOld_despawn1 _ e)) (by simp [St.emit])
      (fun c hc => by simpa [allCmds, St.emit] using hc) (by simp [St.emit]) (nocmd _ (by simp)) (by simp [St.emit]; exact h.wq)
  case wDespawnRec e =>
    exact typical _ [.despawnWork [(e, false)]] (SysOld.of_eq rfl) rfl
      (fun c hc => by simpa [allCmds, St.push, St.emit, frameCmds] using hc) (by simp [St.push, St.emit]) (nocmd _ (by simp [frameCmds])) h.wq
  case wRemove e ty => exact viaCmd _ _ rfl rfl rfl rfl rfl (fun _ _ hh => by cases hh) (fun _ _ hh => by cases hh)
  case wInsertRaw e ty v => exact viaCmd _ _ rfl rfl rfl rfl rfl (fun _ _ hh => by cases hh) (fun _ _ hh => by cases hh)
  case wSetParent c p =>
    split <;> exact typical _ [] (SysOld.of_eq rfl) rfl (fun c hc => by simpa [allCmds, St.emit] using hc) (by simp [St.emit])
      (nocmd _ (by simp)) h.wq
  case gc =>
    exact typical _ [.gc] (SysOld.of_eq rfl) rfl (fun c hc => by simpa [allCmds, St.push, St.emit, frameCmds] using hc)
      (by simp [St.push, St.emit]) (nocmd _ (by simp [frameCmds])) h.wq
  case poll =>
    exact typical _ [.poll] (SysOld.of_eq rfl) rfl (fun c hc => by simpa [allCmds, St.push, St.emit, frameCmds] using hc)
      (by simp [St.push, St.emit]) (nocmd _ (by simp [frameCmds])) h.wq
  case frameEnd =>
    exact typical _ [.gc, .poll] (SysOld.of_eq rfl) rfl (fun c hc => by simpa [allCmds, St.push, St.emit, frameCmds] using hc)
      (by simp [St.push, St.emit]) (nocmd _ (by simp [frameCmds])) h.wq
  case clearTrackers =>
    exact typical _ [] (SysOld.of_eq rfl) rfl (fun c hc => by simpa [allCmds, St.emit] using hc) (by simp [St.emit])
      (nocmd _ (by simp)) h.wq
  case wSysEvent sys ty pid =>
    -- `World::send_system_event`: the data is stored at once and the command applied directly: its entry is prepared
    simp only [applyCmd]
    refine ⟨?_, frames_ok h.frames [.runnerStart sys (.sysEv s.nextEnt)] (by simp [St.push, St.emit, St.fresh]) (nocmd _ (by simp [frameCmds])),
      by simp [St.push, St.emit, St.fresh]; exact h.wq⟩
    intro d x hd hk
    by_cases hdn : d = s.nextEnt
    · exact Or.inl ⟨sys, by simp [St.push, St.emit, St.fresh, hdn]⟩
    · have hd0 : s.data d = some x := by simpa [St.push, St.emit, St.fresh, upd, hdn] using hd
      rcases h.live d x hd0 hk with ⟨sys', hh⟩ | hh | ⟨sys', hh⟩
      · exact Or.inl ⟨sys', by simp [St.push, St.emit, St.fresh, hh]⟩
      · exact Or.inr (Or.inl (by simpa [St.push, St.emit, St.fresh] using hh))
      · exact Or.inr (Or.inr ⟨sys', by simpa [allCmds, St.push, St.emit, St.fresh, frameCmds] using hh⟩)
  case wBroadcast ty pid => exact viaCmd _ _ rfl rfl rfl rfl rfl (fun _ _ hh => by cases hh) (fun _ _ hh => by cases hh)
  case wEntityEvent e ty pid => exact viaCmd _ _ rfl rfl rfl rfl rfl (fun _ _ hh => by cases hh) (fun _ _ hh => by cases hh)
  case sigPrepare e =>
    exact typical _ [] (SysOld.of_eq (by simp [newArc, St.emit])) (by simp [newArc, St.emit])
      (fun c hc => by simpa [allCmds, newArc, St.emit] using hc) (by simp [newArc, St.emit]) (nocmd _ (by simp))
      (by simp [newArc, St.emit]; exact h.wq)
  case sigClone a =>
    split <;> exact typical _ [] (SysOld.of_eq (by simp [St.emit])) (by simp [St.emit])
      (fun c hc => by simpa [allCmds, St.emit] using hc) (by simp [St.emit]) (nocmd _ (by simp)) (by simp [St.emit]; exact h.wq)
  case sigDrop a =>
    split <;> exact typical _ [] (SysOld.of_eq (by simp [St.emit])) (by simp [St.emit])
      (fun c hc => by simpa [allCmds, St.emit] using hc) (by simp [St.emit]) (nocmd _ (by simp)) (by simp [St.emit]; exact h.wq)
  case sigThreads a n =>
    exact typical _ [.gc] (SysOld.of_eq rfl) rfl (fun c hc => by simpa [allCmds, St.push, St.emit, frameCmds] using hc)
      (by simp [St.push, St.emit]) (nocmd _ (by simp [frameCmds])) h.wq

theorem sys_tick (p : Prog) (hh : Hist) {s s' : St} (I : Inv5 s) (D : DataInv s) (h : SysInv s) (ht : tick p hh s = some s') : SysInv s' := by
  unfold tick at ht
  split at ht
  · rename_i s'' hs
    simp only [Option.some.injEq] at ht; subst ht
    unfold step at hs
    cases hst : s.stack with
    | nil => rw [hst] at hs; cases hs
    | cons f rest =>
      rw [hst] at hs
      simp only [Option.some.injEq] at hs; subst hs
      refine sys_runFrame' p hh ({ s with stack := rest } : St) f ?_ ?_ ?_ h.wq (deadOK_of_same D.dead rfl rfl) ?_
      · intro d x hd hk
        rcases h.live d x hd hk with hh' | hh' | ⟨sys, hh'⟩
        · exact Or.inl hh'
        · exact Or.inr (Or.inl hh')
        · refine Or.inr (Or.inr ⟨sys, ?_⟩)
          simp only [allCmds, hst, List.flatMap_cons, List.mem_append] at hh' ⊢
          rcases hh' with h1 | h1 | h1 <;> simp [h1]
      · intro g hg; exact h.frames g (by rw [hst]; exact List.mem_cons_of_mem _ hg)
      · exact h.frames f (by rw [hst]; exact List.mem_cons_self)
      · intro hf
        have htop := I.flag.top
        rw [hst] at htop
        rcases hf with ⟨sys, k, idx, rfl⟩ | ⟨sys, k, rfl⟩
        · have : Idle s := htop.1
          simp only [Idle, Fl, Prod.mk.injEq] at this; exact this.1
        · have : Idle s := htop.1
          simp only [Idle, Fl, Prod.mk.injEq] at this; exact this.1
  · rename_i hnone
    split at ht
    · rename_i op hop
      simp only [Option.some.injEq] at ht; subst ht
      have hst : s.stack = [] := by
        unfold step at hnone
        cases h' : s.stack with
        | nil => rfl
        | cons f rest => rw [h'] at hnone; cases hnone
      exact sys_startTop (s := { s with topIdx := s.topIdx + 1 }) hst ⟨h.live, h.frames, h.wq⟩ (deadOK_of_same D.dead rfl rfl) s.topIdx op
    · cases ht

theorem sys_default : SysInv ({} : St) := by
  refine ⟨?_, ?_, trivial⟩
  · intro d x hd; cases hd
  · intro f hf; cases hf

/-- **Along every execution, every system-event data entity has a reader that has not finished.** -/
theorem sys_reach (p : Prog) (hh : Hist) {s : St} (hr : Reach p hh ({} : St) s) : Inv5 s ∧ DataInv s ∧ SysInv s := by
  induction hr with
  | refl => exact ⟨inv5_default, data_default, sys_default⟩
  | tick _ ht ih => exact ⟨inv5_tick p hh ih.1 ht, data_tick p hh ih.1 ih.2.1 ht, sys_tick p hh ih.1 ih.2.1 ih.2.2 ht⟩

end Cobweb
