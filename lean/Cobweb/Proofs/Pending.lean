/-
  Cobweb.Proofs.Pending — every entry of a tracker's `prepared` list belongs to exactly one command that has been applied
  but has not yet run its `setup` (it is waiting in a runner frame, in the postponed queue, or in a replay loop), and
  vice versa: per tracker, the systems of the prepared entries are a permutation of the systems of the pending commands.
  Consequently nothing is prepared when the machine is quiescent, and a `start` always finds an entry.
-/
import Cobweb.Proofs.SwapRemove
import Cobweb.Proofs.Flags

namespace Cobweb

def usesSys : Kind → Bool | .sysEv _ => true | _ => false
def usesEvt : Kind → Bool | .bcEv _ => true | .entEv _ _ => true | _ => false
def usesEnt : Kind → Bool | .entReact _ _ => true | .entEv _ _ => true | _ => false
def usesDsp : Kind → Bool | .dspReact _ => true | _ => false

/-- Commands waiting for their `setup` that a frame holds. -/
def framePending : Frame → List (Nat × Kind)
  | .runnerStart sys k => [(sys, k)]
  | .runnerLookup sys k _ => [(sys, k)]
  | .abort sys k => [(sys, k)]
  | .replayLoop _ rest kept _ => rest ++ kept
  | _ => []

def stackPending (st : List Frame) : List (Nat × Kind) := st.flatMap framePending

def allPending (s : St) : List (Nat × Kind) := s.buffered ++ stackPending s.stack

/-- Systems of the pending commands that use a given tracker. -/
def pend (u : Kind → Bool) (l : List (Nat × Kind)) : List Nat := (l.filter (fun p => u p.2)).map (·.1)

theorem pend_append (u : Kind → Bool) (a b : List (Nat × Kind)) : pend u (a ++ b) = pend u a ++ pend u b := by
  simp [pend, List.filter_append]

theorem pend_nil (u : Kind → Bool) : pend u [] = [] := rfl

theorem pend_cons (u : Kind → Bool) (x : Nat × Kind) (l : List (Nat × Kind)) :
    pend u (x :: l) = (if u x.2 then [x.1] else []) ++ pend u l := by
  by_cases h : u x.2 <;> simp [pend, List.filter_cons, h]

structure PendInv (s : St) : Prop where
  sys : (s.trkSys.prepared.map (·.1)).Perm (pend usesSys (allPending s))
  evt : (s.trkEvt.prepared.map (·.1)).Perm (pend usesEvt (allPending s))
  ent : (s.trkEnt.prepared.map (·.1)).Perm (pend usesEnt (allPending s))
  dsp : (s.trkDsp.prepared.map (·.1)).Perm (pend usesDsp (allPending s))

/-! ### what `start` removes -/

theorem split_at_first {α : Type} (p : α → Bool) (l : List α) (j : Nat) (h : findIdx' p l 0 = some j) :
    ∃ pre x post, l = pre ++ x :: post ∧ pre.length = j ∧ p x = true := by
  obtain ⟨x, hx, hpx, _⟩ := findIdx'_spec p l 0 j h
  have hj : j < l.length := by have := (findIdx'_lt p l 0 j h).2; omega
  simp only [Nat.sub_zero] at hx
  refine ⟨l.take j, x, l.drop (j + 1), ?_, by simp [List.length_take]; omega, hpx⟩
  have hget : l[j] = x := by
    have := List.getElem?_eq_getElem hj; rw [this] at hx; exact Option.some.inj hx
  rw [← hget]
  exact (List.take_append_drop j l).symm.trans (by rw [List.drop_eq_getElem_cons hj])

/-- Removing (by `swap_remove`) the first entry whose system matches removes exactly one occurrence of that system. -/
theorem first_match_perm {β : Type} (l : List (Nat × β)) (sys : Nat) :
    (findIdx' (fun p => p.1 == sys) l 0 = none ∧ sys ∉ l.map (·.1)) ∨
    (∃ j x, findIdx' (fun p => p.1 == sys) l 0 = some j ∧ l[j]? = some x ∧ x.1 = sys ∧ sys ∈ l.map (·.1) ∧
      ((swapRemove l j).map (·.1)).Perm ((l.map (·.1)).erase sys)) := by
  cases hf : findIdx' (fun p => p.1 == sys) l 0 with
  | none =>
    left
    have hnone := findIdx'_none _ _ _ hf
    refine ⟨rfl, ?_⟩
    intro hin
    obtain ⟨x, hx, hxs⟩ := List.mem_map.mp hin
    have := hnone x hx
    simp [hxs] at this
  | some j =>
    right
    obtain ⟨pre, x, post, hl, hlen, hpx⟩ := split_at_first _ _ _ hf
    have hxs : x.1 = sys := by simpa using hpx
    have hfirst : ∀ y ∈ pre, y.1 ≠ sys := by
      obtain ⟨_, _, _, hfi⟩ := findIdx'_spec _ _ _ _ hf
      intro y hy
      obtain ⟨k, hk, hyk⟩ := List.getElem_of_mem hy
      have hkj : k < j - 0 := by omega
      have := hfi k hkj y (by rw [hl, List.getElem?_append_left hk, List.getElem?_eq_getElem hk, hyk])
      simpa using this
    have hget : l[j]? = some x := by rw [hl, ← hlen]; simp
    refine ⟨j, x, rfl, hget, hxs, by rw [hl]; simp [hxs], ?_⟩
    rw [hl, ← hlen]
    have h1 := (swapRemove_perm pre x post).map (·.1)
    refine h1.trans ?_
    have : (List.map (·.1) (pre ++ x :: post)).erase sys = List.map (·.1) (pre ++ post) := by
      simp only [List.map_append, List.map_cons]
      rw [List.erase_append_right]
      · simp [hxs]
      · intro hin
        obtain ⟨y, hy, hys⟩ := List.mem_map.mp hin
        exact hfirst y hy hys
    rw [this]

theorem TrkData.start_prepared (t : TrkData) (sys : Nat) :
    (sys ∉ t.prepared.map (·.1) ∧ t.start sys = t) ∨
    (sys ∈ t.prepared.map (·.1) ∧ ((t.start sys).prepared.map (·.1)).Perm ((t.prepared.map (·.1)).erase sys)) := by
  rcases first_match_perm t.prepared sys with ⟨hf, hn⟩ | ⟨j, x, hf, hget, _, hin, hp⟩
  · exact Or.inl ⟨hn, by simp [TrkData.start, hf]⟩
  · refine Or.inr ⟨hin, ?_⟩
    have : (t.start sys).prepared = swapRemove t.prepared j := by
      obtain ⟨a, b⟩ := x
      simp [TrkData.start, hf, hget]
    rw [this]; exact hp

theorem TrkEnt.start_prepared (t : TrkEnt) (sys : Nat) :
    (sys ∉ t.prepared.map (·.1) ∧ t.start sys = t) ∨
    (sys ∈ t.prepared.map (·.1) ∧ ((t.start sys).prepared.map (·.1)).Perm ((t.prepared.map (·.1)).erase sys)) := by
  rcases first_match_perm t.prepared sys with ⟨hf, hn⟩ | ⟨j, x, hf, hget, _, hin, hp⟩
  · exact Or.inl ⟨hn, by simp [TrkEnt.start, hf]⟩
  · refine Or.inr ⟨hin, ?_⟩
    have : (t.start sys).prepared = swapRemove t.prepared j := by
      obtain ⟨a, b, c⟩ := x
      simp [TrkEnt.start, hf, hget]
    rw [this]; exact hp

theorem TrkDsp.start_prepared (t : TrkDsp) (sys : Nat) :
    (sys ∉ t.prepared.map (·.1) ∧ (t.start sys).1 = t) ∨
    (sys ∈ t.prepared.map (·.1) ∧ (((t.start sys).1).prepared.map (·.1)).Perm ((t.prepared.map (·.1)).erase sys)) := by
  rcases first_match_perm t.prepared sys with ⟨hf, hn⟩ | ⟨j, x, hf, hget, _, hin, hp⟩
  · exact Or.inl ⟨hn, by simp [TrkDsp.start, hf]⟩
  · refine Or.inr ⟨hin, ?_⟩
    have : ((t.start sys).1).prepared = swapRemove t.prepared j := by
      obtain ⟨a, b, c⟩ := x
      simp [TrkDsp.start, hf, hget]
    rw [this]; exact hp

end Cobweb

namespace Cobweb

inductive TrkId | sys | evt | ent | dsp
deriving DecidableEq

def uses : TrkId → Kind → Bool
  | .sys => usesSys | .evt => usesEvt | .ent => usesEnt | .dsp => usesDsp

/-- Systems of the prepared entries of one tracker. -/
def prep : TrkId → St → List Nat
  | .sys, s => s.trkSys.prepared.map (·.1)
  | .evt, s => s.trkEvt.prepared.map (·.1)
  | .ent, s => s.trkEnt.prepared.map (·.1)
  | .dsp, s => s.trkDsp.prepared.map (·.1)

/-- The invariant, uniformly over the four trackers. -/
def Pend (s : St) : Prop := ∀ T : TrkId, (prep T s).Perm (pend (uses T) (allPending s))

theorem prep_setupK_unused (T : TrkId) (s : St) (k : Kind) (sys : Nat) (h : uses T k = false) :
    prep T (setupK s k sys) = prep T s := by
  cases T <;> cases k <;> simp [uses, usesSys, usesEvt, usesEnt, usesDsp] at h <;> simp only [prep, setupK] <;>
    first | rfl | (split <;> simp)

/-- What `setup` does to the prepared list of a tracker it uses. -/
def SetupEffect (T : TrkId) (s s' : St) (sys : Nat) : Prop :=
  (sys ∉ prep T s ∧ prep T s' = prep T s) ∨ (sys ∈ prep T s ∧ (prep T s').Perm ((prep T s).erase sys))

theorem effect_of_data (t : TrkData) (sys : Nat) {A B : List Nat} (hA : A = t.prepared.map (·.1))
    (hB : B = (t.start sys).prepared.map (·.1)) : (sys ∉ A ∧ B = A) ∨ (sys ∈ A ∧ B.Perm (A.erase sys)) := by
  subst hA hB
  rcases TrkData.start_prepared t sys with ⟨a, b⟩ | ⟨a, b⟩
  · exact Or.inl ⟨a, by rw [b]⟩
  · exact Or.inr ⟨a, b⟩

theorem prep_setupK_used (T : TrkId) (s : St) (k : Kind) (sys : Nat) (h : uses T k = true) :
    SetupEffect T s (setupK s k sys) sys := by
  unfold SetupEffect
  cases T <;> cases k <;> simp [uses, usesSys, usesEvt, usesEnt, usesDsp] at h <;> simp only [prep, setupK]
  · exact effect_of_data s.trkSys sys rfl rfl
  · exact effect_of_data s.trkEvt sys rfl rfl
  · exact effect_of_data s.trkEvt sys rfl rfl
  · rcases TrkEnt.start_prepared s.trkEnt sys with ⟨a, b⟩ | ⟨a, b⟩
    · exact Or.inl ⟨a, by rw [b]⟩
    · exact Or.inr ⟨a, b⟩
  · rcases TrkEnt.start_prepared s.trkEnt sys with ⟨a, b⟩ | ⟨a, b⟩
    · exact Or.inl ⟨a, by rw [b]⟩
    · exact Or.inr ⟨a, b⟩
  · rcases TrkDsp.start_prepared s.trkDsp sys with ⟨a, b⟩ | ⟨a, b⟩
    · left; refine ⟨a, ?_⟩; split <;> simp [b]
    · right; refine ⟨a, ?_⟩; split <;> simpa using b

end Cobweb

namespace Cobweb

theorem prep_cleanupK (T : TrkId) (s : St) (k : Kind) : prep T (cleanupK s k) = prep T s := by
  cases T <;> cases k <;> simp only [prep, cleanupK] <;> first | rfl | simp | (split <;> simp)

theorem prep_emit (T : TrkId) (s : St) (e : Ev) : prep T (s.emit e) = prep T s := by cases T <;> rfl
theorem prep_push (T : TrkId) (s : St) (fs : List Frame) : prep T (s.push fs) = prep T s := by cases T <;> rfl

/-- The system/kind pair a command prepares (reaction and event commands), if any. -/
def cmdPrepares : Cmd → Option (Nat × Kind)
  | .sysEvent sys d => some (sys, .sysEv d)
  | .reactEnt src rt sys => some (sys, .entReact src rt)
  | .reactDsp src sys _ => some (sys, .dspReact src)
  | .reactEv target d sys => some (sys, .entEv target d)
  | .reactBc d sys => some (sys, .bcEv d)
  | _ => none

theorem pend_plain (u : TrkId) (sys : Nat) : pend (uses u) [(sys, Kind.plain)] = [] := by
  cases u <;> simp [pend, uses, usesSys, usesEvt, usesEnt, usesDsp]

/-- Pushed frames that hold no command waiting for a tracker. -/
def NoPend (fs : List Frame) : Prop := ∀ T : TrkId, pend (uses T) (stackPending fs) = []

theorem noPend_nil : NoPend [] := fun _ => rfl
theorem noPend_of_empty {fs : List Frame} (h : stackPending fs = []) : NoPend fs := fun T => by rw [h]; rfl

theorem applyCmd_prep_some (T : TrkId) (s : St) (c : Cmd) (sys : Nat) (k : Kind) (h : cmdPrepares c = some (sys, k)) :
    prep T (applyCmd s c) = prep T s ++ (if uses T k then [sys] else []) ∧
    (applyCmd s c).stack = Frame.runnerStart sys k :: s.stack ∧ (applyCmd s c).buffered = s.buffered := by
  cases c <;> simp [cmdPrepares] at h
  all_goals (obtain ⟨rfl, rfl⟩ := h; cases T <;> simp [applyCmd, prep, uses, usesSys, usesEvt, usesEnt, usesDsp, St.push])

theorem applyCmd_prep_none (T : TrkId) (s : St) (c : Cmd) (h : cmdPrepares c = none) (hc : isCleanup c = false) :
    prep T (applyCmd s c) = prep T s := by
  cases c <;> simp [cmdPrepares] at h <;> simp [isCleanup] at hc <;>
    (cases T <;> simp only [prep, applyCmd] <;> (try split) <;> (try split) <;> (try split) <;> simp [St.push, St.fresh])

theorem register_noPend (s : St) (trigs : List Trig) (sys : Nat) (mode : Mode) :
    ∃ fs, (applyCmd s (.register trigs sys mode)).stack = fs ++ s.stack ∧ NoPend fs := by
  cases mode with
  | persistent =>
    exact ⟨[.flush, .batch (regAll s ⟨sys, none⟩ trigs).2], by simp [applyCmd, St.push], noPend_of_empty rfl⟩
  | cleanup =>
    exact ⟨[.flush, .batch (regAll (newArc s sys).2 ⟨sys, some (newArc s sys).1⟩ trigs).2], by simp [applyCmd, St.push],
      noPend_of_empty rfl⟩
  | revokable =>
    exact ⟨[.flush, .batch (regAll (newArc s sys).2 ⟨sys, some (newArc s sys).1⟩ trigs).2], by simp [applyCmd, St.push],
      noPend_of_empty rfl⟩

theorem applyCmd_noPend (s : St) (c : Cmd) (h : cmdPrepares c = none) (hc : isCleanup c = false) :
    ∃ fs, (applyCmd s c).stack = fs ++ s.stack ∧ NoPend fs := by
  by_cases hreg : ∃ trigs sys mode, c = .register trigs sys mode
  · obtain ⟨trigs, sys, mode, rfl⟩ := hreg
    exact register_noPend s trigs sys mode
  cases c <;> simp [cmdPrepares] at h <;> simp [isCleanup] at hc <;> simp only [applyCmd] <;>
    (try split) <;> (try split) <;> (try split) <;>
    first
    | exact ⟨[], rfl, noPend_nil⟩
    | exact ⟨[.runnerStart _ .plain], rfl, fun u => pend_plain u _⟩
    | exact ⟨[.flush, .batch _], rfl, noPend_of_empty rfl⟩
    | exact ⟨[.despawnWork _], rfl, noPend_of_empty rfl⟩
    | (exfalso; exact hreg ⟨_, _, _, rfl⟩)
    | (refine ⟨[], ?_, noPend_nil⟩; simp; done)

end Cobweb

namespace Cobweb

theorem stackPending_append (a b : List Frame) : stackPending (a ++ b) = stackPending a ++ stackPending b := by
  simp [stackPending, List.flatMap_append]

theorem stackPending_cons (f : Frame) (l : List Frame) : stackPending (f :: l) = framePending f ++ stackPending l := by
  simp [stackPending, List.flatMap_cons]

theorem prep_of_trk {T : TrkId} {s s' : St} (h1 : s'.trkSys = s.trkSys) (h2 : s'.trkEvt = s.trkEvt) (h3 : s'.trkEnt = s.trkEnt)
    (h4 : s'.trkDsp = s.trkDsp) : prep T s' = prep T s := by
  cases T <;> simp [prep, h1, h2, h3, h4]

/-- **Generic step**: prepared lists and the postponed queue are unchanged, the popped frame and the pushed frames hold
    nothing that waits for a tracker. -/
theorem pend_generic {s s' : St} {f : Frame} {rest fs : List Frame} (h : Pend s) (hs : s.stack = f :: rest)
    (hf : ∀ T, pend (uses T) (framePending f) = []) (hp : ∀ T, prep T s' = prep T s) (hb : s'.buffered = s.buffered)
    (hst : s'.stack = fs ++ rest) (hfs : NoPend fs) : Pend s' := by
  intro T
  have h0 := h T
  rw [hp T]
  simp only [allPending, hs, hst, hb, stackPending_append, stackPending_cons, pend_append, hf T, hfs T] at h0 ⊢
  simpa using h0

theorem perm_erase_of_cons {l l' : List Nat} {x : Nat} (h : l.Perm (x :: l')) : (l.erase x).Perm l' := by
  have := h.erase x
  simpa using this

/-- A command `(sys, k)` at the front of the pending part is consumed by `setup`. -/
theorem pend_consume {T : TrkId} {s : St} {sys : Nat} {k : Kind} {A B : List (Nat × Kind)} {P' : List Nat}
    (h0 : (prep T s).Perm (pend (uses T) (A ++ (sys, k) :: B)))
    (hunused : uses T k = false → P' = prep T s)
    (hused : uses T k = true → (sys ∉ prep T s ∧ P' = prep T s) ∨ (sys ∈ prep T s ∧ P'.Perm ((prep T s).erase sys))) :
    P'.Perm (pend (uses T) (A ++ B)) := by
  rw [pend_append, pend_cons] at h0
  rw [pend_append]
  cases hu : uses T k with
  | false =>
    rw [hunused hu]
    simpa [hu] using h0
  | true =>
    simp only [hu, ↓reduceIte] at h0
    have hmid : (prep T s).Perm (sys :: (pend (uses T) A ++ pend (uses T) B)) :=
      h0.trans (by simpa using (List.perm_middle (a := sys) (l₁ := pend (uses T) A) (l₂ := pend (uses T) B)))
    rcases hused hu with ⟨hnot, _⟩ | ⟨_, hp⟩
    · exact absurd (hmid.mem_iff.mpr List.mem_cons_self) hnot
    · exact hp.trans (perm_erase_of_cons hmid)

theorem prep_startBody (T : TrkId) (s : St) (sys : Nat) (k : Kind) : prep T (startBody s sys k) = prep T (setupK s k sys) := by
  have h1 : ∀ t : St, prep T (preBody t sys k) = prep T (setupK t k sys) := by
    intro t
    have a : (preBody t sys k).trkSys = (setupK t k sys).trkSys := by
      unfold preBody; simp only [emit_trkSys]; split <;> simp only [emit_trkSys]
    have b : (preBody t sys k).trkEvt = (setupK t k sys).trkEvt := by
      unfold preBody; simp only [emit_trkEvt]; split <;> simp only [emit_trkEvt]
    have c : (preBody t sys k).trkEnt = (setupK t k sys).trkEnt := by
      unfold preBody; simp only [emit_trkEnt]; split <;> simp only [emit_trkEnt]
    have d : (preBody t sys k).trkDsp = (setupK t k sys).trkDsp := by
      unfold preBody; simp only [emit_trkDsp]; split <;> simp only [emit_trkDsp]
    exact prep_of_trk a b c d
  unfold startBody; dsimp only
  have hfold : ∀ (l : List Nat) (t : St), prep T (l.foldl (fun (s : St) pid => s.emit (Ev.dropPayload pid)) t) = prep T t := by
    intro l; induction l with
    | nil => intro t; rfl
    | cons x l ih => intro t; exact (ih _).trans (prep_emit T t _)
  rw [hfold, ← h1]
  exact prep_of_trk (by simp [St.emit]) (by simp [St.emit]) (by simp [St.emit]) (by simp [St.emit])

end Cobweb

namespace Cobweb

theorem noPend_list {fs : List Frame} (h : ∀ g ∈ fs, framePending g = []) : NoPend fs := by
  apply noPend_of_empty
  simp only [stackPending, List.flatMap_eq_nil_iff]
  exact h

theorem prep_same_of {T : TrkId} {s s' : St} (h1 : s'.trkSys = s.trkSys) (h2 : s'.trkEvt = s.trkEvt)
    (h3 : s'.trkEnt = s.trkEnt) (h4 : s'.trkDsp = s.trkDsp) : prep T s' = prep T s := prep_of_trk h1 h2 h3 h4

theorem prep_pop (T : TrkId) (s : St) (rest : List Frame) : prep T ({ s with stack := rest } : St) = prep T s := by
  cases T <;> rfl

/-- The invariant with the current frame popped: `s` is the state the frame runs on. -/
def PendF (s : St) (f : Frame) : Prop :=
  ∀ T : TrkId, (prep T s).Perm (pend (uses T) (s.buffered ++ (framePending f ++ stackPending s.stack)))

theorem pendF_of_pend {s : St} {f : Frame} {rest : List Frame} (h : Pend s) (hs : s.stack = f :: rest) :
    PendF ({ s with stack := rest } : St) f := by
  intro T; rw [prep_pop]; have := h T
  simpa [allPending, hs, stackPending_cons] using this

theorem pend_gen {s s' : St} {f : Frame} {fs : List Frame} (h : PendF s f) (hf : ∀ T, pend (uses T) (framePending f) = [])
    (hp : ∀ T, prep T s' = prep T s) (hb : s'.buffered = s.buffered) (hst : s'.stack = fs ++ s.stack) (hfs : NoPend fs) :
    Pend s' := by
  intro T
  have h0 := h T
  rw [hp T]
  simp only [allPending, hst, hb, stackPending_append, pend_append, hf T, hfs T] at h0 ⊢
  simpa using h0

theorem pend_mv {s s' : St} {f : Frame} {B : List (Nat × Kind)} {S : List Frame} (h : PendF s f)
    (hp : ∀ T, prep T s' = prep T s) (hb : s'.buffered = B) (hst : s'.stack = S)
    (hperm : ∀ T, (pend (uses T) (s.buffered ++ (framePending f ++ stackPending s.stack))).Perm
      (pend (uses T) (B ++ stackPending S))) : Pend s' := by
  intro T; rw [hp T]; unfold allPending; rw [hb, hst]; exact (h T).trans (hperm T)

macro "trk" : tactic => `(tactic| (intro T; apply prep_of_trk <;> simp [runFrame, St.push, St.emit]))

/-- Decides a permutation between concatenations of the same pieces by counting. -/
macro "permc" : tactic =>
  `(tactic| (rw [List.perm_iff_count]; intro x; simp only [List.count_append, List.count_cons, List.count_nil]; omega))

theorem nopend0 : ∀ T : TrkId, pend (uses T) ([] : List (Nat × Kind)) = [] := fun _ => rfl

/-- `setup` consumes the prepared entries of the command at the front of the pending part. -/
theorem pend_setup {s : St} {sys : Nat} {k : Kind} {A B : List (Nat × Kind)} (T : TrkId)
    (h0 : (prep T s).Perm (pend (uses T) (A ++ (sys, k) :: B))) :
    (prep T (setupK s k sys)).Perm (pend (uses T) (A ++ B)) := by
  refine pend_consume (s := s) h0 (fun hu => prep_setupK_unused T s k sys hu) (fun hu => ?_)
  have := prep_setupK_used T s k sys hu
  unfold SetupEffect at this
  exact this

theorem pend_batch (s : St) (c : Cmd) (cs : List Cmd) (h : PendF s (.batch (c :: cs))) : Pend (doBatch s (c :: cs)) := by
  simp only [doBatch]
  by_cases hcc : isCleanup c = true
  · cases c <;> simp [isCleanup] at hcc
    rename_i k
    refine pend_gen h nopend0 (fun T => ?_) ?_ (fs := [.flush, .batch cs]) ?_ (noPend_of_empty rfl)
    · simp only [applyCmd]; rw [prep_cleanupK]; exact prep_push T _ _
    · simp [applyCmd, St.push]
    · simp [applyCmd, St.push]
  · have hcc : isCleanup c = false := by simpa using hcc
    cases hprep : cmdPrepares c with
    | none =>
      obtain ⟨fs, hfs, hnp⟩ := applyCmd_noPend (s.push [.flush, .batch cs]) c hprep hcc
      refine pend_gen h nopend0 (fun T => ?_) ?_ (fs := fs ++ [.flush, .batch cs]) ?_ ?_
      · rw [applyCmd_prep_none T _ c hprep hcc]; exact prep_push T _ _
      · simp [St.push]
      · rw [hfs]; simp [St.push]
      · intro T; rw [stackPending_append, pend_append, hnp T]; rfl
    | some sk =>
      obtain ⟨sys, k⟩ := sk
      intro T
      obtain ⟨h1, h2, h3⟩ := applyCmd_prep_some T (s.push [.flush, .batch cs]) c sys k hprep
      have h0 := h T
      have hst : (s.push [.flush, .batch cs]).stack = [.flush, .batch cs] ++ s.stack := rfl
      have hbf : (s.push [.flush, .batch cs]).buffered = s.buffered := rfl
      rw [hst] at h2; rw [hbf] at h3
      rw [h1, prep_push]
      unfold allPending
      rw [h2, h3]
      have hR : stackPending [Frame.flush, Frame.batch cs] = [] := rfl
      simp only [stackPending_cons, stackPending_append, pend_append, framePending, pend_cons, pend_nil, hR,
        List.append_nil, List.nil_append] at h0 ⊢
      cases hu : uses T k with
      | false => simpa [hu] using h0
      | true =>
        simp only [hu, ↓reduceIte]
        refine (List.Perm.append_right [sys] h0).trans ?_
        permc

/-- **The pending invariant is preserved by every frame.** -/
theorem pendF_runFrame (p : Prog) (hh : Hist) {s : St} {f : Frame} (h : PendF s f) : Pend (runFrame p hh s f) := by
  cases f with
  | batch cs =>
    cases cs with
    | nil => exact pend_gen h nopend0 (fun _ => rfl) rfl (fs := []) rfl noPend_nil
    | cons c cs => exact pend_batch s c cs h
  | flush =>
    simp only [runFrame, doFlush]
    split
    · exact pend_gen h nopend0 (fun _ => rfl) rfl (fs := []) rfl noPend_nil
    · exact pend_gen h nopend0 (by trk) rfl (fs := [.batch s.wq]) rfl (noPend_of_empty rfl)
  | bodyActs sys k i acc =>
    simp only [runFrame, doBodyActs]
    split
    · exact pend_gen h nopend0 (by trk) rfl (fs := [.cleanup k, .flush, .batch acc]) rfl (noPend_of_empty rfl)
    · rename_i a _
      exact pend_gen h nopend0 (by trk) (by simp [St.push])
        (fs := [.bodyActs sys k (i + 1) (acc ++ (enqueue s a).2)]) (by simp [St.push]) (noPend_of_empty rfl)
  | exclActs sys i =>
    simp only [runFrame, doExclActs]
    split
    · exact pend_gen h nopend0 (by trk) rfl (fs := [.flush]) rfl (noPend_of_empty rfl)
    · exact pend_gen h nopend0 (by trk) (by simp [St.push])
        (fs := [.exclActs sys (i + 1)]) (by simp [St.push]) (noPend_of_empty rfl)
  | topActs t i =>
    simp only [runFrame, doTopActs]
    split
    · exact pend_gen h nopend0 (by trk) rfl (fs := [.flush]) rfl (noPend_of_empty rfl)
    · exact pend_gen h nopend0 (by trk) (by simp [St.push])
        (fs := [.topActs t (i + 1)]) (by simp [St.push]) (noPend_of_empty rfl)
  | cleanup k =>
    exact pend_gen h nopend0 (fun T => by simp only [runFrame]; exact prep_cleanupK T _ k) (by simp [runFrame]) (fs := [])
      (by simp [runFrame]) noPend_nil
  | onceTail sys =>
    exact pend_gen h nopend0 (by trk) (by simp [runFrame]) (fs := [.flush, .dropCallback sys])
      (by simp [runFrame, doOnceTail, St.push]) (noPend_of_empty rfl)
  | dropCallback sys => exact pend_gen h nopend0 (by trk) (by simp [runFrame]) (fs := []) (by simp [runFrame]) noPend_nil
  | runnerStart sys k =>
    refine pend_mv h (by trk) (B := s.buffered) (S := Frame.gc :: Frame.poll :: Frame.runnerLookup sys k s.counter :: s.stack)
      (by simp [runFrame, doRunnerStart, St.push]) (by simp [runFrame, doRunnerStart, St.push]) (fun T => ?_)
    simp [stackPending_cons, framePending]
  | runnerLookup sys k idx =>
    have hmove : ∀ T, (prep T s).Perm (pend (uses T) (s.buffered ++ (sys, k) :: stackPending s.stack)) := by
      intro T; simpa [framePending] using h T
    simp only [runFrame, doRunnerLookup]
    have habort : ∀ (ev : Ev), Pend ((s.emit ev).push (abortFrames sys k)) := by
      intro ev
      refine pend_mv h (by trk) (B := s.buffered) (S := abortFrames sys k ++ s.stack) (by simp [St.push, St.emit])
        (by simp [St.push, St.emit]) (fun T => ?_)
      simp [abortFrames, stackPending_cons, stackPending_append, framePending]
    split
    · exact habort _
    · split
      · exact habort _
      · split
        · exact habort _
        · refine pend_mv h (by trk) (B := s.buffered ++ [(sys, k)]) (S := s.stack) (by simp [St.emit]) (by simp [St.emit]) (fun T => ?_)
          simp [framePending]
      · -- the callback is taken: `setup` consumes the command's prepared entries
        have hs1 : ∀ T, prep T ({ s with storage := upd s.storage sys (some false), counter := s.counter + 1 } : St) = prep T s := by
          intro T; cases T <;> rfl
        have consume : ∀ (s1 : St) (fs : List Frame),
            (∀ T, prep T s1 = prep T (setupK ({ s with storage := upd s.storage sys (some false), counter := s.counter + 1 } : St) k sys)) →
            s1.buffered = s.buffered → s1.stack = fs ++ s.stack → NoPend fs → Pend s1 := by
          intro s1 fs hp hb hst hnp T
          rw [hp T]
          simp only [allPending, hb, hst, stackPending_append, pend_append, hnp T, List.nil_append]
          rw [← pend_append]
          refine pend_setup T ?_
          rw [hs1 T]; exact hmove T
        split
        · exact consume _ [.afterBody sys idx] (fun T => by rw [prep_push, prep_emit]) (by simp [St.push, St.emit]) (by simp [St.push, St.emit])
            (noPend_of_empty rfl)
        · split
          · exact consume _ [.bodyActs sys k 0 [], .onceTail sys, .afterBody sys idx] (fun T => by rw [prep_push, prep_startBody])
              (by simp [St.push]) (by simp [St.push]) (noPend_of_empty rfl)
          · split
            · exact consume _ [.exclActs sys 0, .afterBody sys idx]
                (fun T => by
                  rw [prep_push]
                  refine Eq.trans ?_ (prep_startBody T _ sys k)
                  exact prep_of_trk rfl rfl rfl rfl)
                (by simp [St.push]) (by simp [St.push]) (noPend_of_empty rfl)
            · exact consume _ [.bodyActs sys k 0 [], .afterBody sys idx] (fun T => by rw [prep_push, prep_startBody])
                (by simp [St.push]) (by simp [St.push]) (noPend_of_empty rfl)
  | afterBody sys idx =>
    exact pend_gen h nopend0 (by trk) (by simp [runFrame]) (fs := [.gc, .reinsert sys idx]) (by simp [runFrame, doAfterBody, St.push])
      (noPend_of_empty rfl)
  | reinsert sys idx =>
    simp only [runFrame, doReinsert]
    split
    · exact pend_gen h nopend0 (by trk) (by simp [St.push, St.emit]) (fs := [.poll, .replayTake sys idx]) (by simp [St.push, St.emit])
        (noPend_of_empty rfl)
    · split <;>
        exact pend_gen h nopend0 (by trk) (by simp [St.push, St.emit]) (fs := [.despawnWork [(sys, false)], .gc, .poll, .replayTake sys idx])
          (by simp [St.push, St.emit]) (noPend_of_empty rfl)
    · split <;>
        exact pend_gen h nopend0 (by trk) (by simp [St.push, St.emit]) (fs := [.gc, .poll, .replayTake sys idx])
          (by simp [St.push, St.emit]) (noPend_of_empty rfl)
  | replayTake sys idx =>
    refine pend_mv h (by trk) (B := []) (S := Frame.replayLoop sys s.buffered [] idx :: s.stack)
      (by simp [runFrame, doReplayTake, St.push]) (by simp [runFrame, doReplayTake, St.push]) (fun T => ?_)
    simp [stackPending_cons, framePending]
  | replayLoop sys r kept idx =>
    simp only [runFrame, doReplayLoop]
    split
    · refine pend_mv h (by trk) (B := s.buffered ++ kept) (S := Frame.finish sys idx :: s.stack) (by simp [St.push]) (by simp [St.push])
        (fun T => ?_)
      simp [stackPending_cons, framePending]
    · rename_i b bs
      split
      · refine pend_mv h (by trk) (B := s.buffered) (S := Frame.runnerStart b.1 b.2 :: Frame.replayLoop sys bs kept idx :: s.stack)
          (by simp [St.push]) (by simp [St.push]) (fun T => ?_)
        simp [stackPending_cons, framePending]
      · refine pend_mv h (by trk) (B := s.buffered) (S := Frame.replayLoop sys bs (kept ++ [b]) idx :: s.stack)
          (by simp [St.push]) (by simp [St.push]) (fun T => ?_)
        simp only [stackPending_cons, framePending, pend_append, pend_cons, pend_nil, List.cons_append, List.append_assoc, List.append_nil]
        permc
  | finish sys idx =>
    simp only [runFrame, doFinish]
    split
    · split
      · exact pend_gen h nopend0 (by trk) (by simp [St.emit]) (fs := []) (by simp [St.emit]) noPend_nil
      · rename_i b bs hb
        refine pend_mv h (by trk) (B := bs) (S := (abortFrames b.1 b.2 ++ [Frame.finish sys idx]) ++ s.stack)
          (by simp [St.push]) (by simp [St.push]) (fun T => ?_)
        have hb' : s.buffered = b :: bs := hb
        rw [hb']
        simp only [abortFrames, stackPending_append, stackPending_cons, framePending, stackPending, List.flatMap_nil,
          List.append_nil, List.nil_append, List.flatMap_cons, List.cons_append]
        simp only [pend_append, pend_cons, pend_nil, List.append_nil]
        permc
    · exact pend_gen h nopend0 (by trk) (by simp [St.emit]) (fs := []) (by simp [St.emit]) noPend_nil
  | abort sys k =>
    intro T
    have hmove : (prep T s).Perm (pend (uses T) (s.buffered ++ (sys, k) :: stackPending s.stack)) := by
      simpa [framePending] using h T
    simp only [runFrame]
    rw [prep_cleanupK]
    have e1 : (cleanupK (setupK s k sys) k).buffered = s.buffered := by simp
    have e2 : (cleanupK (setupK s k sys) k).stack = s.stack := by simp
    simp only [allPending, e1, e2]
    exact pend_setup T hmove
  | gc =>
    simp only [runFrame, doGc]
    split
    · exact pend_gen h nopend0 (fun _ => rfl) rfl (fs := []) rfl noPend_nil
    · exact pend_gen h nopend0 (by trk) rfl (fs := [.despawnWork _, .gc]) rfl (noPend_of_empty rfl)
  | despawnWork work =>
    simp only [runFrame, doDespawnWork]
    split
    · exact pend_gen h nopend0 (fun _ => rfl) rfl (fs := []) rfl noPend_nil
    · split
      · rename_i e ex work _
        exact pend_gen h nopend0 (by trk) (by simp [St.push]) (fs := [.despawnWork work]) (by simp [St.push]) (noPend_of_empty rfl)
      · split
        · exact pend_gen h nopend0 (by trk) rfl (fs := [.despawnWork _]) rfl (noPend_of_empty rfl)
        · exact pend_gen h nopend0 (by trk) rfl (fs := [.despawnWork _]) rfl (noPend_of_empty rfl)
  | poll =>
    exact pend_gen h nopend0 (by trk) (by simp [runFrame]) (fs := [.flush]) (by simp [runFrame, doPoll, St.push]) (noPend_of_empty rfl)

theorem pend_runFrame (p : Prog) (hh : Hist) {s : St} {f : Frame} {rest : List Frame} (h : Pend s) (hs : s.stack = f :: rest) :
    Pend (runFrame p hh { s with stack := rest } f) := pendF_runFrame p hh (pendF_of_pend h hs)

end Cobweb

namespace Cobweb

theorem pend_same {s s' : St} {fs : List Frame} (h : Pend s) (hp : ∀ T, prep T s' = prep T s) (hb : s'.buffered = s.buffered)
    (hst : s'.stack = fs ++ s.stack) (hfs : NoPend fs) : Pend s' := by
  intro T
  have h0 := h T
  rw [hp T]
  simp only [allPending, hst, hb, stackPending_append, pend_append, hfs T] at h0 ⊢
  simpa using h0

theorem pend_applyCmd {s : St} (h : Pend s) (c : Cmd) (hcc : isCleanup c = false) : Pend (applyCmd s c) := by
  cases hprep : cmdPrepares c with
  | none =>
    obtain ⟨fs, hfs, hnp⟩ := applyCmd_noPend s c hprep hcc
    exact pend_same h (fun T => applyCmd_prep_none T s c hprep hcc) (by simp) hfs hnp
  | some sk =>
    obtain ⟨sys, k⟩ := sk
    intro T
    obtain ⟨h1, h2, h3⟩ := applyCmd_prep_some T s c sys k hprep
    have h0 := h T
    rw [h1]
    unfold allPending at h0 ⊢
    rw [h2, h3]
    simp only [stackPending_cons, pend_append, framePending, pend_cons, pend_nil, List.append_nil, List.nil_append] at h0 ⊢
    cases hu : uses T k with
    | false => simpa [hu] using h0
    | true =>
      simp only [hu, ↓reduceIte]
      refine (List.Perm.append_right [sys] h0).trans ?_
      permc

macro "trk0" : tactic =>
  `(tactic| (intro T; apply prep_of_trk <;> simp [St.push, St.emit, St.fresh, newArc, cloneHandle]))

theorem pend_startTop {s : St} (h : Pend s) (t : Nat) (op : TopOp) : Pend (startTop s t op) := by
  have pe : ∀ (s1 : St) ev, Pend s1 → Pend (s1.emit ev) := fun s1 ev h1 => pend_same (fs := []) h1 (by trk0) rfl rfl noPend_nil
  have he : Pend (s.emit (.top t)) := pe _ _ h
  unfold startTop
  cases op <;> dsimp only
  case acts => exact pend_same he (by trk0) rfl (fs := [.topActs t 0]) rfl (noPend_of_empty rfl)
  case wDespawn e => exact pend_same he (by trk0) (by simp) (fs := []) (by simp) noPend_nil
  case wDespawnRec e => exact pend_same he (by trk0) rfl (fs := [.despawnWork [(e, false)]]) rfl (noPend_of_empty rfl)
  case wRemove e ty => exact pend_applyCmd he _ rfl
  case wInsertRaw e ty v => exact pend_applyCmd he _ rfl
  case wSetParent c p =>
    split
    · exact pend_same he (by trk0) rfl (fs := []) rfl noPend_nil
    · exact he
  case gc => exact pend_same he (by trk0) rfl (fs := [.gc]) rfl (noPend_of_empty rfl)
  case poll => exact pend_same he (by trk0) rfl (fs := [.poll]) rfl (noPend_of_empty rfl)
  case frameEnd => exact pend_same he (by trk0) rfl (fs := [.gc, .poll]) rfl (noPend_of_empty rfl)
  case wSysEvent sys ty pid =>
    refine pend_applyCmd ?_ _ rfl
    exact pend_same he (by trk0) (by simp [St.fresh, St.emit]) (fs := []) (by simp [St.fresh, St.emit]) noPend_nil
  case wBroadcast ty pid => exact pend_applyCmd (pe _ _ he) (.broadcast ty pid) rfl
  case wEntityEvent e ty pid => exact pend_applyCmd (pe _ _ he) (.entityEvent e ty pid) rfl
  case sigPrepare e => exact pend_same he (by trk0) (by simp [newArc]) (fs := []) (by simp [newArc]) noPend_nil
  case sigClone a =>
    split
    · exact pend_same he (by trk0) (by simp) (fs := []) (by simp) noPend_nil
    · exact he
  case sigDrop a =>
    split
    · exact pend_same he (by trk0) (by simp) (fs := []) (by simp) noPend_nil
    · exact he
  case sigThreads a n => exact pend_same he (by trk0) rfl (fs := [.gc]) rfl (noPend_of_empty rfl)

theorem pend_tick (p : Prog) (hh : Hist) {s s' : St} (h : Pend s) (ht : tick p hh s = some s') : Pend s' := by
  unfold tick at ht
  split at ht
  · rename_i s'' hs
    simp only [Option.some.injEq] at ht; subst ht
    unfold step at hs
    cases hst : s.stack with
    | nil => rw [hst] at hs; cases hs
    | cons f rest =>
      rw [hst] at hs
      simp only [Option.some.injEq] at hs; subst hs
      exact pend_runFrame p hh h hst
  · split at ht
    · rename_i op _
      simp only [Option.some.injEq] at ht; subst ht
      exact pend_startTop (s := { s with topIdx := s.topIdx + 1 }) (pend_same (fs := []) h (fun T => by cases T <;> rfl) rfl rfl noPend_nil)
        s.topIdx op
    · cases ht

theorem pend_default : Pend ({} : St) := by intro T; cases T <;> exact List.Perm.refl _

/-- **Along every execution, each tracker's prepared entries are exactly (as a multiset of system ids) the commands
    that still wait to run their `setup`.** -/
theorem pend_reach (p : Prog) (hh : Hist) {s0 s : St} (h0 : Pend s0) (hr : Reach p hh s0 s) : Pend s := by
  induction hr with
  | refl => exact h0
  | tick _ ht ih => exact pend_tick p hh ih ht

end Cobweb
