/-
  Cobweb.Proofs.Pending — every entry of a tracker's `prepared` list belongs to exactly one command that has been applied
  but has not yet run its `setup` (it is waiting in a runner frame, in the postponed queue, or in a replay loop), and
  vice versa: per tracker, the systems of the prepared entries are a permutation of the systems of the pending commands.
  Consequently nothing is prepared when the machine is quiescent, and a `start` always finds an entry.
-/
import Cobweb.Proofs.SwapRemove
import Cobweb.Proofs.Flags

namespace Cobweb

def usesSys : Kind → Bool | .sysEv _ => true | _ => false
def usesEvt : Kind → Bool | .bcEv _ => true | .entEv _ _ => true | _ => false
def usesEnt : Kind → Bool | .entReact _ _ => true | .entEv _ _ => true | _ => false
def usesDsp : Kind → Bool | .dspReact _ _ => true | _ => false

/-- Commands waiting for their `setup` that a frame holds. -/
def framePending : Frame → List (Nat × Kind)
  | .runnerStart sys k => [(sys, k)]
  | .runnerLookup sys k _ => [(sys, k)]
  | .abort sys k => [(sys, k)]
  | .replayLoop _ rest kept _ => rest ++ kept
  | _ => []

def stackPending (st : List Frame) : List (Nat × Kind) := st.flatMap framePending

def allPending (s : St) : List (Nat × Kind) := s.buffered ++ stackPending s.stack

/-- Systems of the pending commands that use a given tracker. -/
def pend (u : Kind → Bool) (l : List (Nat × Kind)) : List Nat := (l.filter (fun p => u p.2)).map (·.1)

theorem pend_append (u : Kind → Bool) (a b : List (Nat × Kind)) : pend u (a ++ b) = pend u a ++ pend u b := by
  simp [pend, List.filter_append]

theorem pend_nil (u : Kind → Bool) : pend u [] = [] := rfl

theorem pend_cons (u : Kind → Bool) (x : Nat × Kind) (l : List (Nat × Kind)) :
    pend u (x :: l) = (if u x.2 then [x.1] else []) ++ pend u l := by
  by_cases h : u x.2 <;> simp [pend, List.filter_cons, h]

structure PendInv (s : St) : Prop where
  sys : (s.trkSys.prepared.map (·.1)).Perm (pend usesSys (allPending s))
  evt : (s.trkEvt.prepared.map (·.1)).Perm (pend usesEvt (allPending s))
  ent : (s.trkEnt.prepared.map (·.1)).Perm (pend usesEnt (allPending s))
  dsp : (s.trkDsp.prepared.map (·.1)).Perm (pend usesDsp (allPending s))

end Cobweb

namespace Cobweb

inductive TrkId | sys | evt | ent | dsp
deriving DecidableEq

def uses : TrkId → Kind → Bool
  | .sys => usesSys | .evt => usesEvt | .ent => usesEnt | .dsp => usesDsp

/-- Systems of the prepared entries of one tracker. -/
def prep : TrkId → St → List Nat
  | .sys, s => s.trkSys.prepared.map (·.1)
  | .evt, s => s.trkEvt.prepared.map (·.1)
  | .ent, s => s.trkEnt.prepared.map (·.1)
  | .dsp, s => s.trkDsp.prepared.map (·.1)

/-- The invariant, uniformly over the four trackers. -/
def Pend (s : St) : Prop := ∀ T : TrkId, (prep T s).Perm (pend (uses T) (allPending s))

theorem prep_setupK_unused (T : TrkId) (s : St) (k : Kind) (sys : Nat) (h : uses T k = false) :
    prep T (setupK s k sys) = prep T s := by
  cases T <;> cases k <;> simp [uses, usesSys, usesEvt, usesEnt, usesDsp] at h <;> simp only [prep, setupK] <;>
    first | rfl | (split <;> simp)

end Cobweb

namespace Cobweb

theorem prep_cleanupK (T : TrkId) (s : St) (k : Kind) : prep T (cleanupK s k) = prep T s := by
  cases T <;> cases k <;> simp only [prep, cleanupK] <;> first | rfl | simp | (split <;> simp)

theorem prep_emit (T : TrkId) (s : St) (e : Ev) : prep T (s.emit e) = prep T s := by cases T <;> rfl
theorem prep_push (T : TrkId) (s : St) (fs : List Frame) : prep T (s.push fs) = prep T s := by cases T <;> rfl

/-- The system/kind pair a command prepares (reaction and event commands), if any. -/
def cmdPrepares : Cmd → Option (Nat × Kind)
  | .sysEvent sys d => some (sys, .sysEv d)
  | .reactEnt src rt sys => some (sys, .entReact src rt)
  | .reactDsp src sys h => some (sys, .dspReact src h)
  | .reactEv target d sys => some (sys, .entEv target d)
  | .reactBc d sys => some (sys, .bcEv d)
  | _ => none

theorem pend_plain (u : TrkId) (sys : Nat) : pend (uses u) [(sys, Kind.plain)] = [] := by
  cases u <;> simp [pend, uses, usesSys, usesEvt, usesEnt, usesDsp]

/-- Pushed frames that hold no command waiting for a tracker. -/
def NoPend (fs : List Frame) : Prop := ∀ T : TrkId, pend (uses T) (stackPending fs) = []

theorem noPend_nil : NoPend [] := fun _ => rfl
theorem noPend_of_empty {fs : List Frame} (h : stackPending fs = []) : NoPend fs := fun T => by rw [h]; rfl

theorem applyCmd_prep_some (T : TrkId) (s : St) (c : Cmd) (sys : Nat) (k : Kind) (h : cmdPrepares c = some (sys, k)) :
    prep T (applyCmd s c) = prep T s ++ (if uses T k then [sys] else []) ∧
    (applyCmd s c).stack = Frame.runnerStart sys k :: s.stack ∧ (applyCmd s c).buffered = s.buffered := by
  cases c <;> simp [cmdPrepares] at h
  all_goals (obtain ⟨rfl, rfl⟩ := h; cases T <;> simp [applyCmd, prep, uses, usesSys, usesEvt, usesEnt, usesDsp, St.push])

theorem applyCmd_prep_none (T : TrkId) (s : St) (c : Cmd) (h : cmdPrepares c = none) (hc : isCleanup c = false) :
    prep T (applyCmd s c) = prep T s := by
  cases c <;> simp [cmdPrepares] at h <;> simp [isCleanup] at hc <;>
    (cases T <;> simp only [prep, applyCmd] <;> (try split) <;> (try split) <;> (try split) <;> simp [St.push, St.fresh])

theorem register_noPend (s : St) (trigs : List Trig) (sys : Nat) (mode : Mode) :
    ∃ fs, (applyCmd s (.register trigs sys mode)).stack = fs ++ s.stack ∧ NoPend fs := by
  cases mode with
  | persistent =>
    exact ⟨[.flush, .batch (regAll s ⟨sys, none⟩ trigs).2], by simp [applyCmd, St.push], noPend_of_empty rfl⟩
  | cleanup =>
    exact ⟨[.flush, .batch (regAll (newArc s sys).2 ⟨sys, some (newArc s sys).1⟩ trigs).2], by simp [applyCmd, St.push],
      noPend_of_empty rfl⟩
  | revokable =>
    exact ⟨[.flush, .batch (regAll (newArc s sys).2 ⟨sys, some (newArc s sys).1⟩ trigs).2], by simp [applyCmd, St.push],
      noPend_of_empty rfl⟩

theorem applyCmd_noPend (s : St) (c : Cmd) (h : cmdPrepares c = none) (hc : isCleanup c = false) :
    ∃ fs, (applyCmd s c).stack = fs ++ s.stack ∧ NoPend fs := by
  by_cases hreg : ∃ trigs sys mode, c = .register trigs sys mode
  · obtain ⟨trigs, sys, mode, rfl⟩ := hreg
    exact register_noPend s trigs sys mode
  cases c <;> simp [cmdPrepares] at h <;> simp [isCleanup] at hc <;> simp only [applyCmd] <;>
    (try split) <;> (try split) <;> (try split) <;>
    first
    | exact ⟨[], rfl, noPend_nil⟩
    | exact ⟨[.runnerStart _ .plain], rfl, fun u => pend_plain u _⟩
    | exact ⟨[.flush, .batch _], rfl, noPend_of_empty rfl⟩
    | exact ⟨[.despawnWork _], rfl, noPend_of_empty rfl⟩
    | (exfalso; exact hreg ⟨_, _, _, rfl⟩)
    | (refine ⟨[], ?_, noPend_nil⟩; simp; done)

end Cobweb

namespace Cobweb

theorem stackPending_append (a b : List Frame) : stackPending (a ++ b) = stackPending a ++ stackPending b := by
  simp [stackPending, List.flatMap_append]

theorem stackPending_cons (f : Frame) (l : List Frame) : stackPending (f :: l) = framePending f ++ stackPending l := by
  simp [stackPending, List.flatMap_cons]

theorem prep_of_trk {T : TrkId} {s s' : St} (h1 : s'.trkSys = s.trkSys) (h2 : s'.trkEvt = s.trkEvt) (h3 : s'.trkEnt = s.trkEnt)
    (h4 : s'.trkDsp = s.trkDsp) : prep T s' = prep T s := by
  cases T <;> simp [prep, h1, h2, h3, h4]

/-- **Generic step**: prepared lists and the postponed queue are unchanged, the popped frame and the pushed frames hold
    nothing that waits for a tracker. -/
theorem pend_generic {s s' : St} {f : Frame} {rest fs : List Frame} (h : Pend s) (hs : s.stack = f :: rest)
    (hf : ∀ T, pend (uses T) (framePending f) = []) (hp : ∀ T, prep T s' = prep T s) (hb : s'.buffered = s.buffered)
    (hst : s'.stack = fs ++ rest) (hfs : NoPend fs) : Pend s' := by
  intro T
  have h0 := h T
  rw [hp T]
  simp only [allPending, hs, hst, hb, stackPending_append, stackPending_cons, pend_append, hf T, hfs T] at h0 ⊢
  simpa using h0

theorem prep_startBody (T : TrkId) (s : St) (sys : Nat) (k : Kind) : prep T (startBody s sys k) = prep T (setupK s k sys) := by
  have h1 : ∀ t : St, prep T (preBody t sys k) = prep T (setupK t k sys) := by
    intro t
    have a : (preBody t sys k).trkSys = (setupK t k sys).trkSys := by
      unfold preBody; simp only [emit_trkSys]; split <;> simp only [emit_trkSys]
    have b : (preBody t sys k).trkEvt = (setupK t k sys).trkEvt := by
      unfold preBody; simp only [emit_trkEvt]; split <;> simp only [emit_trkEvt]
    have c : (preBody t sys k).trkEnt = (setupK t k sys).trkEnt := by
      unfold preBody; simp only [emit_trkEnt]; split <;> simp only [emit_trkEnt]
    have d : (preBody t sys k).trkDsp = (setupK t k sys).trkDsp := by
      unfold preBody; simp only [emit_trkDsp]; split <;> simp only [emit_trkDsp]
    exact prep_of_trk a b c d
  unfold startBody; dsimp only
  have hfold : ∀ (l : List Nat) (t : St), prep T (l.foldl (fun (s : St) pid => s.emit (Ev.dropPayload pid)) t) = prep T t := by
    intro l; induction l with
    | nil => intro t; rfl
    | cons x l ih => intro t; exact (ih _).trans (prep_emit T t _)
  rw [hfold, ← h1]
  exact prep_of_trk (by simp [St.emit]) (by simp [St.emit]) (by simp [St.emit]) (by simp [St.emit])

end Cobweb

namespace Cobweb

theorem noPend_list {fs : List Frame} (h : ∀ g ∈ fs, framePending g = []) : NoPend fs := by
  apply noPend_of_empty
  simp only [stackPending, List.flatMap_eq_nil_iff]
  exact h

theorem prep_same_of {T : TrkId} {s s' : St} (h1 : s'.trkSys = s.trkSys) (h2 : s'.trkEvt = s.trkEvt)
    (h3 : s'.trkEnt = s.trkEnt) (h4 : s'.trkDsp = s.trkDsp) : prep T s' = prep T s := prep_of_trk h1 h2 h3 h4

theorem prep_pop (T : TrkId) (s : St) (rest : List Frame) : prep T ({ s with stack := rest } : St) = prep T s := by
  cases T <;> rfl

/-- The invariant with the current frame popped: `s` is the state the frame runs on. -/
def PendF (s : St) (f : Frame) : Prop :=
  ∀ T : TrkId, (prep T s).Perm (pend (uses T) (s.buffered ++ (framePending f ++ stackPending s.stack)))

theorem pendF_of_pend {s : St} {f : Frame} {rest : List Frame} (h : Pend s) (hs : s.stack = f :: rest) :
    PendF ({ s with stack := rest } : St) f := by
  intro T; rw [prep_pop]; have := h T
  simpa [allPending, hs, stackPending_cons] using this

theorem pend_gen {s s' : St} {f : Frame} {fs : List Frame} (h : PendF s f) (hf : ∀ T, pend (uses T) (framePending f) = [])
    (hp : ∀ T, prep T s' = prep T s) (hb : s'.buffered = s.buffered) (hst : s'.stack = fs ++ s.stack) (hfs : NoPend fs) :
    Pend s' := by
  intro T
  have h0 := h T
  rw [hp T]
  simp only [allPending, hst, hb, stackPending_append, pend_append, hf T, hfs T] at h0 ⊢
  simpa using h0

theorem pend_mv {s s' : St} {f : Frame} {B : List (Nat × Kind)} {S : List Frame} (h : PendF s f)
    (hp : ∀ T, prep T s' = prep T s) (hb : s'.buffered = B) (hst : s'.stack = S)
    (hperm : ∀ T, (pend (uses T) (s.buffered ++ (framePending f ++ stackPending s.stack))).Perm
      (pend (uses T) (B ++ stackPending S))) : Pend s' := by
  intro T; rw [hp T]; unfold allPending; rw [hb, hst]; exact (h T).trans (hperm T)

macro "trk" : tactic => `(tactic| (intro T; apply prep_of_trk <;> simp [runFrame, St.push, St.emit]))

/-- Decides a permutation between concatenations of the same pieces by counting. -/
macro "permc" : tactic =>
  `(tactic| (rw [List.perm_iff_count]; intro x; simp only [List.count_append, List.count_cons, List.count_nil]; omega))

theorem nopend0 : ∀ T : TrkId, pend (uses T) ([] : List (Nat × Kind)) = [] := fun _ => rfl

end Cobweb

namespace Cobweb

theorem pend_same {s s' : St} {fs : List Frame} (h : Pend s) (hp : ∀ T, prep T s' = prep T s) (hb : s'.buffered = s.buffered)
    (hst : s'.stack = fs ++ s.stack) (hfs : NoPend fs) : Pend s' := by
  intro T
  have h0 := h T
  rw [hp T]
  simp only [allPending, hst, hb, stackPending_append, pend_append, hfs T] at h0 ⊢
  simpa using h0

theorem pend_default : Pend ({} : St) := by intro T; cases T <;> exact List.Perm.refl _

end Cobweb
