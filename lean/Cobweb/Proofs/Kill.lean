/-
  Cobweb.Proofs.Kill — what despawning one entity does to the fields other proofs care about.
-/
import Cobweb.Proofs.Frames

namespace Cobweb

@[simp] theorem kill_alive_self (s : St) (e : Nat) : (kill s e).alive e = false := by
  simp [kill, killStorage]

theorem kill_alive_other (s : St) (e x : Nat) (h : x ≠ e) : (kill s e).alive x = s.alive x := by
  simp [kill, killStorage, h]

theorem kill_storage (s : St) (e x : Nat) : (kill s e).storage x = if x = e then none else s.storage x := by
  simp [kill, killStorage, upd]

theorem killData_data (s : St) (e x : Nat) : (killData s e).data x = if x = e then none else s.data x := by
  unfold killData
  split
  · rename_i y hy
    dsimp only
    split <;> (simp [St.emit, upd])
  · rename_i hy
    by_cases hx : x = e
    · subst hx; simp [hy]
    · simp [hx]

theorem kill_data (s : St) (e x : Nat) : (kill s e).data x = if x = e then none else s.data x := by
  simp [kill, killData_data]

theorem killData_drops (s : St) (e : Nat) (y : DataEnt) (hy : s.data e = some y) (hnt : y.taken = false) :
    (killData s e).trace = .dropPayload y.pid :: s.trace := by
  simp [killData, hy, hnt, St.emit]

theorem kill_drops (s : St) (e : Nat) (y : DataEnt) (hy : s.data e = some y) (hnt : y.taken = false) :
    Ev.dropPayload y.pid ∈ (kill s e).trace := by
  have hd : (killTracker (killComps (killReactors (killStorage (killCanary s e) e) e) e) e).data e = some y := by simp [hy]
  have := killData_drops _ e y hd hnt
  simp only [kill]
  show Ev.dropPayload y.pid ∈ (killData _ e).trace
  rw [this]; simp

theorem kill_entReactors (s : St) (e x : Nat) (h : x ≠ e) : (kill s e).entReactors x = s.entReactors x := by
  simp only [kill, killData_entReactors, killTracker_entReactors, killComps_entReactors]
  unfold killReactors
  split
  · simp [h]
  · simp

end Cobweb
